#!/venv/bin/python
"""Run the repository's own suite on /repo (guard off) and compare with BASELINE.json stable_pass."""
import json, os, subprocess, sys, tempfile
import xml.etree.ElementTree as ET
tree = sys.argv[1] if len(sys.argv) > 1 else "/repo"
env = dict(os.environ, PYTHONPATH=tree); env.pop("WAVESPECTRA_VERIF", None)
xml = tempfile.mktemp(suffix=".xml", dir="/tmp")
subprocess.run(["/venv/bin/python", "-m", "pytest", "-q", "-p", "no:cacheprovider", "--timeout=900", "--continue-on-collection-errors", "-n", "8", "--junitxml=" + xml], cwd=tree, env=env, capture_output=True)
passed = set()
for tc in ET.parse(xml).getroot().iter("testcase"):
    if not any(ch.tag in ("failure", "error", "skipped") for ch in tc):
        passed.add("%s::%s" % (tc.get("classname"), tc.get("name")))
os.remove(xml)
base = json.load(open("/root/.vp/BASELINE.json"))["stable_pass"]
missing = [t for t in base if t not in passed]
print("baseline %d, passed now %d, missing %d" % (len(base), len(passed), len(missing)))
for m in missing: print("  MISSING", m)
sys.exit(1 if missing else 0)
