#!/bin/sh
# Offline setup: make sure hypothesis is importable in /venv and pre-build the native pieces.
cd "$(dirname "$0")" || exit 1
/venv/bin/python -c "import hypothesis" 2>/dev/null || \
  /venv/bin/pip install --no-index --find-links /opt/veriftools/wheels hypothesis || exit 1
/venv/bin/python -c "
from vf import env
env.build_extension()
env.build_native('specpart_driver', 'specpart_driver.c')
print('setup ok')
" || exit 1
