/* Standalone driver for wavespectra's watershed routine (specpart.c), built with
 * clang -fsanitize=address,undefined and linked against the *tree's* specpart.c.
 *
 * It carries its own, independent oracle for properties C04 / C20:
 *   - discretise the input exactly as documented (round half away from zero of
 *     (zmax - z) * (ihmax-1)/(zmax-zmin), z in float32),
 *   - find the regional maxima (components of equal level with no higher neighbour) by
 *     flood fill under 8-neighbour adjacency, direction axis circular,
 *   - require: every bin labelled >= 1, labels are exactly 1..L with L = number of regional
 *     maxima, each label holds exactly one (whole) regional maximum, each label connected,
 *   - require: every circular shift of the direction axis gives the shifted partition up to
 *     renaming of labels,
 *   - labels of constant spectra are all equal (one basin); labels never exceed nk*nth; every call returns
 *     within a CPU-time cap (ITIMER_VIRTUAL).
 *
 * Modes
 *   enum  <shard> <nshards> <maxcells> <alphabet> <maxdim> <noshift> ih1,ih2,...
 *         every shape nk*nth <= maxcells (nk,nth <= maxdim), every content over
 *         {0..alphabet-1}, every listed ihmax. Prints a summary line, FAIL lines for violations.
 *   rand  <shard> <nshards> <seed> <count> <maxnk> <maxnth> <levels> ih1,ih2,...
 *         pseudo-random contents (LCG seeded by seed+index), shapes cycling so that partinit
 *         reallocates between calls.
 *   stdin   cases "nk nth ihmax shift v..." (C99 hex floats) one per line -> "OK l..." / "FAIL .."
 */
#include <math.h>
#include <signal.h>
#include <stdio.h>
#include <stdlib.h>
#include <string.h>
#include <sys/time.h>
#include <unistd.h>

#include "specpart.h"

#define MAXCELLS 16384

static int g_nk, g_nth, g_ih;
static const float *g_spec;
static long g_calls = 0;
static const char *g_trace = NULL;

static void print_case(FILE *fp, const char *tag, const char *why, const float *spec, int nk, int nth, int ih) {
  int i;
  fprintf(fp, "%s %s %d %d %d", tag, why, nk, nth, ih);
  for (i = 0; i < nk * nth; i++) fprintf(fp, " %a", (double)spec[i]);
  fprintf(fp, "\n");
  fflush(fp);
}

static void on_vtalrm(int sig) {
  (void)sig;
  /* async-signal-unsafe stdio is acceptable here: we are about to _exit */
  print_case(stdout, "FAIL", "timeout", g_spec, g_nk, g_nth, g_ih);
  _exit(4);
}

static void arm(int seconds) {
  struct itimerval it;
  memset(&it, 0, sizeof it);
  it.it_value.tv_sec = seconds;
  setitimer(ITIMER_VIRTUAL, &it, NULL);
}

/* run the routine under test; out[f*nth+d] */
static void run(const float *spec, int nk, int nth, int ih, int *out) {
  static float inbuf[MAXCELLS];
  int *raw = (int *)malloc((size_t)nk * nth * sizeof(int)); /* exact size: ASan sees overruns */
  float *in = (float *)malloc((size_t)nk * nth * sizeof(float));
  int f, d;
  (void)inbuf;
  memcpy(in, spec, (size_t)nk * nth * sizeof(float));
  for (f = 0; f < nk * nth; f++) raw[f] = -12345;
  g_nk = nk; g_nth = nth; g_ih = ih; g_spec = spec;
  if (g_trace) {
    FILE *tf = fopen(g_trace, "w");
    if (tf) { print_case(tf, "CASE", "running", spec, nk, nth, ih); fclose(tf); }
  }
  arm(10);
  partition(in, raw, nk, nth, ih);
  arm(0);
  g_calls++;
  for (f = 0; f < nk; f++)
    for (d = 0; d < nth; d++) out[f * nth + d] = raw[f + nk * d];
  free(raw);
  free(in);
}

static void discretise(const float *spec, int n, int ih, int *lev, int *constant) {
  double zmin = spec[0], zmax = spec[0], fact;
  int i;
  for (i = 1; i < n; i++) {
    if (spec[i] < zmin) zmin = spec[i];
    if (spec[i] > zmax) zmax = spec[i];
  }
  *constant = (zmax - zmin < 1e-9);
  if (*constant) return;
  fact = (ih - 1.0) / (zmax - zmin);
  for (i = 0; i < n; i++) {
    float zf = (float)(zmax - (double)spec[i]);
    double v = (double)zf * fact, r = floor(v);
    if (v - r >= 0.5) r += 1.0;
    if (r < 0) r = 0;
    if (r > ih - 1) r = ih - 1;
    lev[i] = (int)r;
  }
}

/* neighbours of cell c=(f,d): returns count, fills nb (distinct, excluding c itself) */
static int neighbours(int f, int d, int nk, int nth, int *nb) {
  int df, dd, k = 0, j;
  for (df = -1; df <= 1; df++)
    for (dd = -1; dd <= 1; dd++) {
      int ff = f + df, d2, c, dup = 0;
      if (df == 0 && dd == 0) continue;
      if (ff < 0 || ff >= nk) continue;
      d2 = ((d + dd) % nth + nth) % nth;
      c = ff * nth + d2;
      if (c == f * nth + d) continue;
      for (j = 0; j < k; j++) if (nb[j] == c) dup = 1;
      if (!dup) nb[k++] = c;
    }
  return k;
}

/* label connected components of equal key; returns number of components */
static int components(const int *key, int nk, int nth, int *comp) {
  int n = nk * nth, i, nc = 0, top, j, k;
  int *stack = (int *)malloc(n * sizeof(int));
  int nb[8];
  for (i = 0; i < n; i++) comp[i] = -1;
  for (i = 0; i < n; i++) {
    if (comp[i] >= 0) continue;
    top = 0; stack[top++] = i; comp[i] = nc;
    while (top) {
      int c = stack[--top];
      k = neighbours(c / nth, c % nth, nk, nth, nb);
      for (j = 0; j < k; j++)
        if (comp[nb[j]] < 0 && key[nb[j]] == key[c]) { comp[nb[j]] = nc; stack[top++] = nb[j]; }
    }
    nc++;
  }
  free(stack);
  return nc;
}

/* returns NULL if fine, else a static reason string. *nmax receives number of regional maxima */
static const char *oracle(const float *spec, int nk, int nth, int ih, const int *lab, int *nmax, int *basins) {
  int n = nk * nth, i, j, k, constant, nc, nreg = 0, maxlab = 0;
  int *lev = (int *)malloc(n * sizeof(int));
  int *comp = (int *)malloc(n * sizeof(int));
  int *isreg, *regoflab, *labcomp, *seen;
  int nb[8];
  const char *why = NULL;
  *nmax = 0; *basins = 0;
  for (i = 0; i < n; i++)
    if (lab[i] < 0 || lab[i] > n) { why = "label-out-of-range"; goto done2; }
  discretise(spec, n, ih, lev, &constant);
  if (constant) {
    /* outside C04; one whole-grid basin (or the historical "no basin" map) is all that is accepted */
    for (i = 0; i < n; i++) if (lab[i] != lab[0] || lab[i] > 1) { why = "constant-not-uniform"; goto done2; }
    goto done2;
  }
  for (i = 0; i < n; i++) {
    if (lab[i] < 1) { why = "unlabelled-bin"; goto done2; }
    if (lab[i] > maxlab) maxlab = lab[i];
  }
  *basins = maxlab;
  nc = components(lev, nk, nth, comp);
  isreg = (int *)malloc(nc * sizeof(int));
  for (i = 0; i < nc; i++) isreg[i] = 1;
  for (i = 0; i < n; i++) {
    k = neighbours(i / nth, i % nth, nk, nth, nb);
    for (j = 0; j < k; j++) if (lev[nb[j]] < lev[i]) isreg[comp[i]] = 0; /* lower level = more energy */
  }
  for (i = 0; i < nc; i++) nreg += isreg[i];
  *nmax = nreg;
  regoflab = (int *)malloc((maxlab + 1) * sizeof(int));
  seen = (int *)calloc(maxlab + 1, sizeof(int));
  for (i = 0; i <= maxlab; i++) regoflab[i] = -1;
  for (i = 0; i < n; i++) seen[lab[i]] = 1;
  for (i = 1; i <= maxlab; i++) if (!seen[i]) { why = "label-gap"; goto done; }
  if (maxlab != nreg) { why = "count-mismatch"; goto done; }
  /* each regional maximum inside one label; each label exactly one regional maximum */
  {
    int *labofreg = (int *)malloc(nc * sizeof(int));
    for (i = 0; i < nc; i++) labofreg[i] = -1;
    for (i = 0; i < n; i++) {
      if (!isreg[comp[i]]) continue;
      if (labofreg[comp[i]] == -1) labofreg[comp[i]] = lab[i];
      else if (labofreg[comp[i]] != lab[i]) { why = "maximum-split"; free(labofreg); goto done; }
    }
    for (i = 0; i < nc; i++) {
      if (!isreg[i]) continue;
      if (regoflab[labofreg[i]] != -1) { why = "two-maxima-in-one-basin"; free(labofreg); goto done; }
      regoflab[labofreg[i]] = i;
    }
    free(labofreg);
    for (i = 1; i <= maxlab; i++) if (regoflab[i] == -1) { why = "basin-without-maximum"; goto done; }
  }
  /* connectivity of each label */
  labcomp = (int *)malloc(n * sizeof(int));
  if (components(lab, nk, nth, labcomp) != maxlab) why = "basin-disconnected";
  free(labcomp);
done:
  free(isreg); free(regoflab); free(seen);
done2:
  free(lev); free(comp);
  return why;
}

static int same_partition(const int *a, const int *b, int n) {
  /* a ~ b up to bijective renaming */
  int i, ok = 1;
  int *m1 = (int *)malloc((n + 2) * sizeof(int)), *m2 = (int *)malloc((n + 2) * sizeof(int));
  for (i = 0; i < n + 2; i++) m1[i] = m2[i] = -1;
  for (i = 0; i < n && ok; i++) {
    if (a[i] < 0 || a[i] > n || b[i] < 0 || b[i] > n) { ok = 0; break; }
    if (m1[a[i]] == -1) m1[a[i]] = b[i]; else if (m1[a[i]] != b[i]) ok = 0;
    if (m2[b[i]] == -1) m2[b[i]] = a[i]; else if (m2[b[i]] != a[i]) ok = 0;
  }
  free(m1); free(m2);
  return ok;
}

static long n_cases = 0, n_nontrivial = 0, n_fail = 0, n_shift = 0, n_const = 0, n_multi = 0;

/* distinct counting: enumerations are distinct by construction; pseudo-random cases are hashed */
static int g_by_construction = 0;
#define HBITS 22
static unsigned long long *g_tab = NULL;
static long g_tab_used = 0;
static int seen_before(const float *spec, int nk, int nth, int ih) {
  unsigned long long h = 1469598103934665603ULL;
  const unsigned char *b = (const unsigned char *)spec;
  size_t i, nbytes = (size_t)nk * nth * sizeof(float), pos;
  int hdr[3] = {nk, nth, ih};
  const unsigned char *hb = (const unsigned char *)hdr;
  if (!g_tab) g_tab = (unsigned long long *)calloc((size_t)1 << HBITS, sizeof(unsigned long long));
  for (i = 0; i < sizeof hdr; i++) { h ^= hb[i]; h *= 1099511628211ULL; }
  for (i = 0; i < nbytes; i++) { h ^= b[i]; h *= 1099511628211ULL; }
  if (h == 0) h = 1;
  if (g_tab_used > ((long)1 << (HBITS - 1))) return 1; /* table half full: stop counting (conservative) */
  pos = (size_t)(h >> (64 - HBITS));
  while (g_tab[pos]) {
    if (g_tab[pos] == h) return 1;
    pos = (pos + 1) & (((size_t)1 << HBITS) - 1);
  }
  g_tab[pos] = h;
  g_tab_used++;
  return 0;
}

/* full check of one case; shift: 0 none, 1 all shifts, k>1: that single shift (k-1) */
static const char *check_case(const float *spec, int nk, int nth, int ih, int shift, int *lab_out) {
  int n = nk * nth, s, f, d, nmax, basins;
  int *lab = lab_out ? lab_out : (int *)malloc(n * sizeof(int));
  const char *why;
  run(spec, nk, nth, ih, lab);
  why = oracle(spec, nk, nth, ih, lab, &nmax, &basins);
  n_cases++;
  if (nmax == 0) n_const++;
  if (nmax >= 2) { n_multi++; if (g_by_construction || !seen_before(spec, nk, nth, ih)) n_nontrivial++; }
  if (!why && shift && nth > 1) {
    float *sp2 = (float *)malloc(n * sizeof(float));
    int *lab2 = (int *)malloc(n * sizeof(int)), *exp = (int *)malloc(n * sizeof(int));
    int s0 = shift == 1 ? 1 : shift - 1, s1 = shift == 1 ? nth - 1 : shift - 1;
    for (s = s0; s <= s1 && !why; s++) {
      for (f = 0; f < nk; f++)
        for (d = 0; d < nth; d++) {
          sp2[f * nth + (d + s) % nth] = spec[f * nth + d];
          exp[f * nth + (d + s) % nth] = lab[f * nth + d];
        }
      run(sp2, nk, nth, ih, lab2);
      n_shift++;
      if (!same_partition(exp, lab2, n)) why = "shift-changes-partition";
    }
    free(sp2); free(lab2); free(exp);
  }
  if (!lab_out) free(lab);
  return why;
}

static int parse_list(const char *s, int *out, int max) {
  int k = 0;
  char *dup = strdup(s), *tok = strtok(dup, ",");
  while (tok && k < max) { out[k++] = atoi(tok); tok = strtok(NULL, ","); }
  free(dup);
  return k;
}

static int mode_enum(int argc, char **argv) {
  int shard = atoi(argv[2]), nshards = atoi(argv[3]), maxcells = atoi(argv[4]), alpha = atoi(argv[5]);
  int maxdim = atoi(argv[6]), noshift = atoi(argv[7]);
  int ihs[32], nih = parse_list(argv[8], ihs, 32);
  int nk, nth, i, q;
  long idx = 0, total;
  float spec[64];
  (void)argc;
  g_by_construction = 1;
  for (nk = 1; nk <= maxdim; nk++)
    for (nth = 1; nth <= maxdim; nth++) {
      int n = nk * nth;
      if (n > maxcells || n > 24) continue;
      total = 1;
      for (i = 0; i < n; i++) total *= alpha;
      for (long c = 0; c < total; c++, idx++) {
        long r = c;
        if (idx % nshards != shard) continue;
        for (i = 0; i < n; i++) { spec[i] = (float)(r % alpha); r /= alpha; }
        for (q = 0; q < nih; q++) {
          const char *why = check_case(spec, nk, nth, ihs[q], noshift ? 0 : 1, NULL);
          if (why) {
            n_fail++;
            if (n_fail <= 20) print_case(stdout, "FAIL", why, spec, nk, nth, ihs[q]);
          }
        }
      }
    }
  printf("SUMMARY cases=%ld nontrivial=%ld constant=%ld shifts=%ld calls=%ld fails=%ld\n", n_cases, n_nontrivial, n_const, n_shift, g_calls, n_fail);
  return n_fail ? 3 : 0;
}

static unsigned long long lcg(unsigned long long *s) {
  *s = *s * 6364136223846793005ULL + 1442695040888963407ULL;
  return *s >> 33;
}

static int mode_rand(int argc, char **argv) {
  int shard = atoi(argv[2]), nshards = atoi(argv[3]);
  unsigned long long seed = strtoull(argv[4], NULL, 10);
  long count = atol(argv[5]);
  int maxnk = atoi(argv[6]), maxnth = atoi(argv[7]), levels = atoi(argv[8]);
  int ihs[32], nih = parse_list(argv[9], ihs, 32);
  float *spec = (float *)malloc(MAXCELLS * sizeof(float));
  long idx;
  (void)argc;
  for (idx = shard; idx < count; idx += nshards) {
    unsigned long long s = seed * 1000003ULL + (unsigned long long)idx;
    int nk, nth, n, i, ih, kind, lv;
    const char *why;
    lcg(&s);
    nk = 1 + (int)(lcg(&s) % maxnk);
    nth = 1 + (int)(lcg(&s) % maxnth);
    n = nk * nth;
    ih = ihs[lcg(&s) % nih];
    kind = (int)(lcg(&s) % 4);
    lv = 2 + (int)(lcg(&s) % (levels > 2 ? levels - 1 : 1));
    for (i = 0; i < n; i++) {
      if (kind == 0) spec[i] = (float)(lcg(&s) % lv);                     /* plateaus / ties */
      else if (kind == 1) spec[i] = (lcg(&s) % 4 == 0) ? (float)(1 + lcg(&s) % lv) : 0.0f; /* sparse */
      else if (kind == 2) spec[i] = (float)((double)(lcg(&s) % 1000003) / 1000003.0);      /* noisy */
      else spec[i] = (float)exp(-8.0 * (double)(lcg(&s) % 1000) / 1000.0);               /* wide range */
    }
    why = check_case(spec, nk, nth, ih, (idx % 7 == 0 || n <= 64) ? 1 : 0, NULL);
    if (why) {
      n_fail++;
      if (n_fail <= 20) print_case(stdout, "FAIL", why, spec, nk, nth, ih);
    }
  }
  printf("SUMMARY cases=%ld nontrivial=%ld constant=%ld shifts=%ld calls=%ld fails=%ld\n", n_cases, n_nontrivial, n_const, n_shift, g_calls, n_fail);
  free(spec);
  return n_fail ? 3 : 0;
}

static int mode_stdin(void) {
  char *line = NULL;
  size_t cap = 0;
  float *spec = (float *)malloc(MAXCELLS * sizeof(float));
  int *lab = (int *)malloc(MAXCELLS * sizeof(int));
  while (getline(&line, &cap, stdin) > 0) {
    char *p = line, *e;
    int nk, nth, ih, shift, n, i;
    const char *why;
    nk = (int)strtol(p, &e, 10); p = e;
    nth = (int)strtol(p, &e, 10); p = e;
    ih = (int)strtol(p, &e, 10); p = e;
    shift = (int)strtol(p, &e, 10); p = e;
    n = nk * nth;
    if (nk < 1 || nth < 1 || n > MAXCELLS || ih < 1) { printf("BAD\n"); fflush(stdout); continue; }
    for (i = 0; i < n; i++) { spec[i] = strtof(p, &e); if (e == p) break; p = e; }
    if (i != n) { printf("BAD\n"); fflush(stdout); continue; }
    why = check_case(spec, nk, nth, ih, shift, lab);
    printf("%s", why ? "FAIL " : "OK");
    if (why) printf("%s", why);
    for (i = 0; i < n; i++) printf(" %d", lab[i]);
    printf("\n");
    fflush(stdout);
  }
  free(spec); free(lab); free(line);
  return 0;
}

#ifndef NO_MAIN
int main(int argc, char **argv) {
  signal(SIGVTALRM, on_vtalrm);
  g_trace = getenv("DRIVER_TRACE");
  if (argc >= 9 && !strcmp(argv[1], "enum")) return mode_enum(argc, argv);
  if (argc >= 10 && !strcmp(argv[1], "rand")) return mode_rand(argc, argv);
  if (argc >= 2 && !strcmp(argv[1], "stdin")) return mode_stdin();
  fprintf(stderr, "usage: see source\n");
  return 2;
}
#endif
