/* libFuzzer target for the watershed routine, oracle inside (see specpart_driver.c).
 * bytes: [0] nk-1 (mod 12)  [1] nth-1 (mod 16)  [2] ihmax selector  [3] value mode / levels  [4..] cell values
 * A violation of the C04/C20 oracle prints the case and aborts, so libFuzzer saves the input. */
#include <stdint.h>
#define NO_MAIN
#include "specpart_driver.c"

static const int IHS[] = {1, 2, 3, 4, 5, 7, 10, 50, 100, 1000};

int LLVMFuzzerTestOneInput(const uint8_t *data, size_t size) {
  static float spec[12 * 16];
  int nk, nth, ih, n, i, mode, levels;
  const char *why;
  if (size < 5) return 0;
  nk = 1 + data[0] % 12;
  nth = 1 + data[1] % 16;
  ih = IHS[data[2] % 10];
  mode = data[3] >> 6;
  levels = 2 + (data[3] & 7);
  n = nk * nth;
  for (i = 0; i < n; i++) {
    uint8_t b = data[4 + (i % (size - 4))];
    if (mode == 0) spec[i] = (float)(b % levels);
    else if (mode == 1) spec[i] = (float)b / 255.0f;
    else if (mode == 2) spec[i] = (b & 3) ? 0.0f : (float)(1 + (b >> 2));
    else spec[i] = expf(-(float)b / 16.0f);
  }
  signal(SIGVTALRM, on_vtalrm);
  why = check_case(spec, nk, nth, ih, (n <= 96) ? 1 : 0, NULL);
  if (why) {
    print_case(stdout, "FAIL", why, spec, nk, nth, ih);
    abort();
  }
  return 0;
}
