"""Verification framework for wavespectra (property-based testing / fuzzing)."""
