"""Shared generators. Every strategy yields plain JSON-able dicts ("specs"); `build_*` turns a
spec into numpy / xarray objects deterministically, so a saved case rebuilds exactly.

Soundness rules (what every caller of the library respects, see DESIGN.md section 3):
  * frequencies strictly increasing, positive;
  * directions: uniform full circle d0 + i*360/n (mod 360), stored ascending, rolled or descending
    (partial / non-uniform grids only where a property names them);
  * spectra finite and non-negative.
"""
import math

import numpy as np
from hypothesis import strategies as st

# ------------------------------------------------------------------------------ grids


@st.composite
def freq_grid(draw, nmin=1, nmax=24, kinds=("log", "uniform", "irregular"), tail=None):
    n = draw(st.integers(nmin, nmax))
    kind = draw(st.sampled_from(kinds))
    if tail is None:
        tail = draw(st.sampled_from(["below", "above"]))
    # highest frequency either side of the 0.333 Hz tail threshold
    if tail == "below":
        fmax = draw(st.floats(0.06, 0.33))
    else:
        fmax = draw(st.floats(0.34, 1.0))
    if n == 1:
        return dict(kind="single", tail=tail, f=[round(fmax, 6)])
    if kind == "log":
        r = draw(st.floats(1.03, 1.3))
        f0 = fmax / r ** (n - 1)
        if f0 < 0.01:
            r = (fmax / 0.01) ** (1.0 / (n - 1))
            f0 = 0.01
        f = [f0 * r**i for i in range(n)]
    elif kind == "uniform":
        fmin = draw(st.floats(0.02, max(0.021, fmax * 0.6)))
        fmin = min(fmin, fmax * 0.9)
        f = list(np.linspace(fmin, fmax, n))
    else:
        fmin = draw(st.floats(0.02, max(0.021, fmax * 0.5)))
        fmin = min(fmin, fmax * 0.8)
        w = draw(st.lists(st.floats(0.05, 1.0), min_size=n - 1, max_size=n - 1))
        c = np.concatenate([[0.0], np.cumsum(w)])
        f = list(fmin + (fmax - fmin) * c / c[-1])
    f = [float(np.float64(round(x, 7))) for x in f]
    # rounding must not destroy strict monotonicity
    for i in range(1, n):
        if f[i] <= f[i - 1]:
            f[i] = round(f[i - 1] + 1e-6, 7)
    return dict(kind=kind, tail=tail, f=f)


@st.composite
def dir_grid(draw, nmin=1, nmax=36, orders=("asc", "rolled", "desc", "shuffled"), spacing=("whole", "dyadic", "arbitrary")):
    """Uniform full-circle grid; `d` is the *stored* sequence."""
    n = draw(st.integers(nmin, nmax))
    sp = draw(st.sampled_from(spacing))
    if sp == "whole":
        cands = [k for k in (1, 2, 3, 4, 5, 6, 8, 9, 10, 12, 15, 18, 20, 24, 30, 36, 40, 45, 60, 72) if nmin <= k <= nmax]
        if cands:
            n = draw(st.sampled_from(cands))
            dd = 360 // n
            d0 = float(draw(st.integers(0, dd - 1))) if dd > 1 else 0.0
        else:
            sp = "arbitrary"
    if sp == "dyadic":
        cands = [k for k in (1, 2, 4, 8, 16, 32, 64) if nmin <= k <= nmax] + [k for k in (3, 5, 6, 9, 10, 12, 15, 18, 20, 24, 30, 36, 40, 45, 48, 72) if nmin <= k <= nmax and (360 * 64) % k == 0]
        if cands:
            n = draw(st.sampled_from(sorted(set(cands))))
            dd = 360.0 / n
            d0 = draw(st.sampled_from([0.0, 0.5, 0.25, 0.125, 2.5, 7.75]))
            if d0 >= dd:
                d0 = 0.0
        else:
            sp = "arbitrary"
    if sp == "arbitrary":
        dd = 360.0 / n
        d0 = draw(st.floats(0, 1)) * dd * 0.999
    dd = 360.0 / n
    asc = [(d0 + i * dd) for i in range(n)]
    asc = [x if x < 360.0 else x - 360.0 for x in asc]
    asc = sorted(float(np.float64(x)) for x in asc)
    order = draw(st.sampled_from(orders)) if n > 1 else "asc"
    roll = 0
    if order == "rolled":
        roll = draw(st.integers(1, n - 1))
        # the seam between the first two stored directions is the class that matters most
        if draw(st.booleans()):
            roll = 1
        d = asc[-roll:] + asc[:-roll]
    elif order == "desc":
        d = asc[::-1]
    elif order == "shuffled" and n > 2:
        # any stored order at all (e.g. two sector files concatenated without sorting): 0, 30, ..., 330, 15, 45, ..., 345
        if draw(st.booleans()) and n % 2 == 0:
            d = asc[0::2] + asc[1::2]
        else:
            d = [asc[i] for i in draw(st.permutations(list(range(n))))]
    else:
        d = asc
    return dict(n=n, spacing=sp, order=order, roll=roll, d=d)


# ------------------------------------------------------------------------------ spectra

SPEC_KINDS = ("bumps", "noisy", "plateau", "sparse", "monotone", "constant", "zero", "single_bin", "wide")
# kinds weighted towards several well separated wave systems (for partitioning properties)
MULTI_KINDS = ("multi", "multi", "multi", "noisy", "sparse", "sparse", "plateau", "bumps", "wide", "monotone", "constant", "zero", "single_bin")


@st.composite
def spectrum(draw, kinds=SPEC_KINDS, maxbumps=4):
    """Spec of one (nf, nd) spectrum in *index space* (grid independent)."""
    kind = draw(st.sampled_from(kinds))
    s = dict(kind=kind, rs=draw(st.integers(0, 2**31 - 1)), amp=draw(st.sampled_from([1e-6, 1e-3, 0.05, 1.0, 30.0])))
    if kind in ("multi", "multinoisy"):
        if kind == "multinoisy":
            s["sigma"] = draw(st.sampled_from([0.1, 0.3, 0.8]))
        nb = draw(st.integers(1 if kind == "multinoisy" else 2, 6))
        s["bumps"] = [
            dict(pf=draw(st.integers(0, 19)) / 19.0, pd=draw(st.integers(0, 23)) / 24.0, wf=draw(st.sampled_from([0.04, 0.07, 0.12])),
                 wd=draw(st.sampled_from([0.05, 0.1, 0.2])), a=draw(st.sampled_from([0.1, 0.3, 0.5, 1.0, 1.0])))
            for _ in range(nb)
        ]
    elif kind in ("bumps", "noisy", "plateau", "wide"):
        nb = draw(st.integers(1, maxbumps))
        s["bumps"] = [
            dict(
                pf=draw(st.floats(0, 1)),  # peak position along freq as fraction of the axis
                pd=draw(st.floats(0, 1)),  # along dir (circular)
                wf=draw(st.floats(0.03, 0.5)),
                wd=draw(st.floats(0.03, 0.6)),
                a=draw(st.floats(0.05, 1.0)),
            )
            for _ in range(nb)
        ]
        if kind == "plateau":
            s["levels"] = draw(st.integers(2, 5))
        if kind == "noisy":
            s["sigma"] = draw(st.floats(0.05, 1.0))
    elif kind == "sparse":
        s["spikes"] = [dict(pf=draw(st.floats(0, 1)), pd=draw(st.floats(0, 1)), a=draw(st.floats(0.05, 1.0))) for _ in range(draw(st.integers(1, 5)))]
    elif kind == "monotone":
        s["up"] = draw(st.booleans())
        s["pd"] = draw(st.floats(0, 1))
        s["wd"] = draw(st.floats(0.05, 0.6))
    elif kind == "single_bin":
        s["pf"] = draw(st.floats(0, 1))
        s["pd"] = draw(st.floats(0, 1))
    return s


def build_spectrum(s, nf, nd, dtype=np.float64):
    """(nf, nd) array, dir axis in *ascending-direction index space* (caller reorders)."""
    fi = (np.arange(nf) + 0.5) / nf
    di = (np.arange(nd) + 0.5) / nd
    kind = s["kind"]
    rs = np.random.RandomState(s["rs"] % (2**31 - 1))
    if kind in ("bumps", "noisy", "plateau", "wide", "multi", "multinoisy"):
        e = np.zeros((nf, nd))
        for b in s["bumps"]:
            gf = np.exp(-0.5 * ((fi - b["pf"]) / b["wf"]) ** 2)
            dth = np.abs(di - b["pd"])
            dth = np.minimum(dth, 1 - dth)
            gd = np.cos(np.pi * dth) ** (2.0 / max(b["wd"], 1e-3) ** 2 * 0.25)
            e += b["a"] * np.outer(gf, gd)
        if kind in ("noisy", "multinoisy"):
            if kind == "multinoisy":
                e = e + 1e-3 * e.max()  # energy everywhere: no exactly-zero plateaus, no ties
            e = e * np.exp(s["sigma"] * rs.standard_normal((nf, nd)))
        elif kind == "plateau":
            L = s["levels"]
            m = e.max() if e.max() > 0 else 1.0
            e = np.round(e / m * (L - 1)) / (L - 1)
        elif kind == "wide":
            m = e.max() if e.max() > 0 else 1.0
            e = 10.0 ** (12.0 * (e / m - 1.0))
    elif kind == "sparse":
        e = np.zeros((nf, nd))
        for sp in s["spikes"]:
            e[min(nf - 1, int(sp["pf"] * nf)), min(nd - 1, int(sp["pd"] * nd))] += sp["a"]
    elif kind == "monotone":
        prof = fi if s["up"] else fi[::-1]
        dth = np.abs(di - s["pd"])
        dth = np.minimum(dth, 1 - dth)
        e = np.outer(prof, np.exp(-0.5 * (dth / s["wd"]) ** 2) + 0.01)
    elif kind == "constant":
        e = np.ones((nf, nd))
    elif kind == "zero":
        e = np.zeros((nf, nd))
    elif kind == "single_bin":
        e = np.zeros((nf, nd))
        e[min(nf - 1, int(s["pf"] * nf)), min(nd - 1, int(s["pd"] * nd))] = 1.0
    else:
        raise ValueError(kind)
    e = np.asarray(e * s["amp"], dtype=np.float64)
    e[~np.isfinite(e)] = 0.0
    e = np.maximum(e, 0.0)
    # keep the dynamic range inside what float32 arithmetic can square without underflow:
    # 13 decades below the maximum is set to exactly zero (the 'wide' kind spans 12 decades)
    if e.size and e.max() > 0:
        e[e < e.max() * 1e-13] = 0.0
    e[e < 1e-15] = 0.0
    return np.ascontiguousarray(e.astype(dtype))


def order_index(dg):
    """Positions in the ascending grid of each stored direction."""
    asc = sorted(dg["d"])
    return [asc.index(x) for x in dg["d"]]


# ------------------------------------------------------------------------------ datasets

EXTRA_DIMS = ("time", "site", "lat", "lon")


@st.composite
def extra_dims(draw, maxdims=3, maxsize=3, allow=("time", "site", "lat", "lon")):
    """Leading non-spectral dims, e.g. [["time",2],["site",3]] (station) or with lat/lon (grid)."""
    layout = draw(st.sampled_from(["none", "time", "site", "time_site", "grid", "time_grid", "site_time"]))
    m = {
        "none": [], "time": ["time"], "site": ["site"], "time_site": ["time", "site"],
        "site_time": ["site", "time"], "grid": ["lat", "lon"], "time_grid": ["time", "lat", "lon"],
    }[layout]
    m = [d for d in m if d in allow][:maxdims]
    sizes = []
    for d in m:
        sizes.append([d, draw(st.integers(1, maxsize))])
    # unequal lat/lon sizes are the interesting grid class
    return sizes


def lived():
    """Strategy for the `lived` field of a case: mostly None (a fresh object), else a small integer (see live_a_life)."""
    from hypothesis import strategies as st

    return st.one_of(st.none(), st.none(), st.none(), st.integers(0, 8))


def live_a_life(da, k):
    """Give a freshly built object a past: statistics are taken through its accessor while it holds other frequencies,
    directions and values, then the real ones are put back *in place on the same object*. Its contents end up exactly
    what they were, so every statement about results must hold for it as for a fresh object."""
    f, vals = da.freq.values.copy(), da.values.copy()
    d = da.dir.values.copy() if "dir" in da.dims else None
    if f.size > 1:
        da["freq"] = f * [0.5, 1.25, 2.0][k % 3] if k < 6 else f ** 2 / f[0]
    if d is not None:
        da["dir"] = (d + [90.0, 37.0, 181.0][k // 3 % 3]) % 360.0
    da.values = vals * 3.0
    for m in ("hs", "tp", "tm01", "tm02", "momf", "sw") + (("dm", "dp", "dspr", "dpm") if d is not None else ()):
        try:
            np.asarray(getattr(da.spec, m)())
        except Exception:  # noqa: BLE001 - these calls are only there to leave traces
            pass
    da["freq"] = f
    if d is not None:
        da["dir"] = d
    da.values = vals
    return da


def coord_dtypes():
    """Strategy for the `cdtype` field: how the freq/dir coordinates are stored (values are those of the grid spec,
    rounded to the storage type): float64 (default), float32 (as read from many files), integer direction labels."""
    from hypothesis import strategies as st

    return st.sampled_from(["f64", "f64", "f64", "f32", "int-dir", "f32-dir"])


def perms():
    """Strategy for the `perm` field: None (canonical order: leading dims, freq, dir) or a seed for another storage order."""
    from hypothesis import strategies as st

    return st.one_of(st.none(), st.none(), st.none(), st.integers(0, 1000))


def build_dataarray(fg, dg, specs, dims, dtype="float64", winds=None, lived=None, cdtype=None, perm=None):
    """DataArray (*dims, freq, dir) in C order. `specs`: one spectrum spec per position (row-major)."""
    import pandas as pd
    import xarray as xr

    f = np.array(fg["f"], dtype="float64")
    d = np.array(dg["d"], dtype="float64") if dg is not None else None
    nf = f.size
    nd = d.size if d is not None else 1
    shape = [n for _, n in dims]
    npos = int(np.prod(shape)) if shape else 1
    arr = np.empty((npos, nf, nd), dtype=dtype)
    oi = order_index(dg) if dg is not None else [0]
    for p in range(npos):
        e = build_spectrum(specs[p % len(specs)], nf, nd, dtype=np.dtype(dtype))
        arr[p] = e[:, oi]
    coords = {}
    for name, n in dims:
        if name == "time":
            coords["time"] = pd.date_range("2020-01-01", periods=n, freq="3h")
        elif name == "site":
            coords["site"] = np.arange(n)
        elif name == "lat":
            coords["lat"] = np.linspace(-10.0, -8.0, n) if n > 1 else np.array([-10.0])
        elif name == "lon":
            coords["lon"] = np.linspace(150.0, 153.0, n) if n > 1 else np.array([150.0])
    coords["freq"] = f
    names = [n for n, _ in dims] + ["freq"]
    if d is not None:
        coords["dir"] = d
        names.append("dir")
        data = arr.reshape(shape + [nf, nd])
    else:
        data = arr.reshape(shape + [nf])
    if cdtype in ("f32",):
        coords["freq"] = f.astype("float32")
    if d is not None and cdtype in ("f32", "f32-dir"):
        coords["dir"] = d.astype("float32")
    if d is not None and cdtype == "int-dir" and np.all(d == np.round(d)):
        coords["dir"] = d.astype("int64")
    da = xr.DataArray(np.ascontiguousarray(data), coords=coords, dims=names, name="efth")
    if perm is not None and len(names) > 1:
        # the same labelled data stored with its dimensions in another order (spectral dimensions need not come last)
        order = [names[i] for i in np.random.RandomState(perm).permutation(len(names))]
        tr = da.transpose(*order)
        da = tr.copy(data=np.ascontiguousarray(tr.values))
    if lived is not None:
        live_a_life(da, lived)
    return da


def describe(fg, dg, specs=None, dims=None, **kw):
    out = dict(nf=len(fg["f"]), fkind=fg["kind"], fmin=fg["f"][0], fmax=fg["f"][-1])
    if dg is not None:
        out.update(nd=dg["n"], dorder=dg["order"], d_first=dg["d"][:3])
    if specs is not None:
        out["spectra"] = [s["kind"] for s in specs][:6]
    if dims is not None:
        out["dims"] = dims
    out.update(kw)
    return out
