"""Locate the tree under test, build its C extension, and make `import wavespectra` use both.

Nothing here is cached across runs except by content hash of the C sources, so an edit to
specpart.c / specpart_wrap.c in the tree under test is always rebuilt and used.
"""
import hashlib
import importlib.machinery
import importlib.util
import os
import subprocess
import sys
import sysconfig

VERIF = os.path.dirname(os.path.dirname(os.path.abspath(__file__)))
REPO = os.path.abspath(os.environ.get("VERIF_REPO", "/repo"))
BUILD = os.path.join(VERIF, ".build")
WORK = os.path.join(VERIF, ".work")
GUARD = "WAVESPECTRA_VERIF"


class HarnessError(Exception):
    """Something in the verification machinery (not the library) failed -> exit 2."""


def _csources():
    d = os.path.join(REPO, "wavespectra", "partition", "specpart")
    return d, [os.path.join(d, "specpart_wrap.c"), os.path.join(d, "specpart.c")]


def _hash(paths, extra=""):
    h = hashlib.sha1(extra.encode())
    for p in paths:
        with open(p, "rb") as f:
            h.update(f.read())
    return h.hexdigest()[:16]


def build_extension():
    """Compile the tree's specpart extension with gcc; returns the path of the .so."""
    import numpy

    d, srcs = _csources()
    hdr = os.path.join(d, "specpart.h")
    key = _hash(srcs + [hdr], "ext" + sys.version + numpy.__version__)
    outdir = os.path.join(BUILD, "ext-" + key)
    so = os.path.join(outdir, "specpart" + sysconfig.get_config_var("EXT_SUFFIX"))
    if os.path.exists(so):
        return so
    os.makedirs(outdir, exist_ok=True)
    tmp = so + ".%d.tmp" % os.getpid()
    cmd = [
        "gcc", "-O1", "-g", "-shared", "-fPIC", "-fno-strict-aliasing",
        "-I", sysconfig.get_paths()["include"], "-I", numpy.get_include(), "-I", d,
        "-o", tmp,
    ] + srcs + ["-lm"]
    r = subprocess.run(cmd, capture_output=True, text=True)
    if r.returncode != 0:
        raise HarnessError("C extension build failed:\n" + r.stderr[-4000:])
    os.replace(tmp, so)
    return so


def build_native(name, source, sanitize=True, fuzzer=False, extra=()):
    """Compile native/<source> together with the tree's specpart.c using clang + sanitizers."""
    d, srcs = _csources()
    src = os.path.join(VERIF, "native", source)
    flags = ["-O1", "-g", "-fno-omit-frame-pointer"]
    if sanitize:
        san = "address,undefined" + (",fuzzer" if fuzzer else "")
        flags += ["-fsanitize=" + san, "-fno-sanitize-recover=undefined"]
    key = _hash([src, srcs[1], os.path.join(d, "specpart.h")], name + " ".join(flags) + " ".join(extra))
    outdir = os.path.join(BUILD, "nat-" + key)
    exe = os.path.join(outdir, name)
    if os.path.exists(exe):
        return exe
    os.makedirs(outdir, exist_ok=True)
    tmp = exe + ".%d.tmp" % os.getpid()
    cmd = ["clang"] + flags + list(extra) + ["-I", d, "-o", tmp, src, srcs[1], "-lm"]
    r = subprocess.run(cmd, capture_output=True, text=True)
    if r.returncode != 0:
        raise HarnessError("native build failed (%s):\n%s" % (name, r.stderr[-4000:]))
    os.replace(tmp, exe)
    return exe


_ready = False


def setup():
    """Make `import wavespectra` resolve to REPO with a freshly built extension. Idempotent."""
    global _ready
    if _ready:
        return
    if not os.path.isdir(os.path.join(REPO, "wavespectra")):
        raise HarnessError("no wavespectra package under %s" % REPO)
    os.environ[GUARD] = "1"
    if "wavespectra" in sys.modules:
        raise HarnessError("wavespectra imported before vf.env.setup()")
    sys.path.insert(0, REPO)
    so = build_extension()
    name = "wavespectra.partition.specpart"
    loader = importlib.machinery.ExtensionFileLoader(name, so)
    spec = importlib.util.spec_from_file_location(name, so, loader=loader)
    mod = importlib.util.module_from_spec(spec)
    loader.exec_module(mod)
    sys.modules[name] = mod
    import logging
    import warnings

    warnings.filterwarnings("ignore")
    logging.disable(logging.CRITICAL)
    import wavespectra  # noqa: F401

    got = os.path.abspath(os.path.dirname(os.path.dirname(wavespectra.__file__)))
    if got != REPO:
        raise HarnessError("wavespectra imported from %s, expected %s" % (got, REPO))
    import wavespectra.partition as wp

    wp.specpart = mod
    from wavespectra.partition import partition as pp

    if pp.specpart is not mod:
        raise HarnessError("partition module is not using the freshly built extension")
    _ready = True


def workdir():
    d = os.path.join(WORK, str(os.getpid()))
    os.makedirs(d, exist_ok=True)
    return d


CLEANUPS = []


def cleanup_workdir():
    import shutil

    for fn in CLEANUPS:
        try:
            fn()
        except Exception:  # noqa: BLE001
            pass
    del CLEANUPS[:]

    shutil.rmtree(os.path.join(WORK, str(os.getpid())), ignore_errors=True)
    try:
        os.rmdir(WORK)
    except OSError:
        pass
