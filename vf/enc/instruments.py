"""Reference encoders for instrument / station file formats (property C13).

Written from the public format descriptions and the vendor samples under tests/sample_files; nothing
here imports wavespectra. Every encoder takes plain numpy arrays that are *already rounded to the
format's print precision*, so the text written represents exactly the values the reader must return.
"""
import gzip
import json
import math
import os

import numpy as np

R2D = 180.0 / math.pi


def _w(path, text, gz=False):
    if gz:
        with gzip.open(path, "wt") as f:
            f.write(text)
    else:
        with open(path, "w") as f:
            f.write(text)


# ----------------------------------------------------------------------------- TRIAXYS

def triaxys_dirspec(path, time, f0, df, E, ddir, header_variant=0):
    """E[nf, nd] with nd = 360/ddir + 1 columns from 0 to 360 degrees inclusive (m2/Hz/deg)."""
    nf, nd = E.shape
    title = "TRIAXYS BUOY DATA REPORT - TAS01970 - TAB01401 - 4857.6668S16631.6837W" if header_variant == 0 else "TRIAXYS BUOY REPORT"
    s = [title, "VERSION = WV (NDS)", "TYPE\t= DIRECTIONAL SPECTRUM", "DATE    = %s(UTC)" % time.strftime("%Y-%m-%d %H:%M"),
         "NUMBER OF FREQUENCIES              = %7d" % nf, "NUMBER OF RESOLVABLE FREQUENCIES   = %7d" % max(1, nf - 2), "INITIAL FREQUENCY (Hz)             = %7.3f" % f0,
         "FREQUENCY SPACING (Hz)             = %7.3f" % df, "RESOLVABLE FREQUENCY RANGE (Hz)    = %7.3f  TO %6.3f" % (f0 + df, f0 + df * (nf - 1)),
         "NUMBER OF DIRECTIONS               = %7d" % nd, "DIRECTION SPACING (DEG)            = %7g" % ddir, "COLUMNS = 0.00 TO 360.00 DEG", "ROWS\t= %4.2f TO %6.2f Hz" % (f0, f0 + df * (nf - 1))]
    for i in range(nf):
        s.append("".join(" %.5E" % v for v in E[i]))
    _w(path, "\n".join(s) + "\n")


def triaxys_nondirspec(path, time, f0, df, E1):
    nf = len(E1)
    s = ["TRIAXYS BUOY DATA REPORT - TAS01970 - TAB01401 - 4857.6668S16631.6837W", "VERSION = WV", "TYPE    = NON-DIRECTIONAL SPECTRUM", "DATE    = %s(UTC)" % time.strftime("%Y-%m-%d %H:%M"),
         "NUMBER OF FREQUENCIES              = %4d" % nf, "INITIAL FREQUENCY (Hz)             = %7.3f" % f0, "FREQUENCY SPACING (Hz)             = %7.3f" % df,
         "COLUMN 1 = FREQUENCY (Hz)", "COLUMN 2 = SPECTRAL DENSITY (M^2/Hz)"]
    for i in range(nf):
        s.append("%.3f  %.7E" % (f0 + df * i, E1[i]))
    _w(path, "\n".join(s) + "\n")


# ----------------------------------------------------------------------------- NDBC ASCII

def ndbc_realtime(path, times, freqs, values, kind, sep_freq=None, gz=False):
    """Realtime format: '#YY MM DD hh mm [Sep_Freq] < v (f) v (f) ... >' one record per line."""
    names = {"spec": ("spec", "%.3f"), "swdir": ("alpha1", "%.1f"), "swdir2": ("alpha2", "%.1f"), "swr1": ("r1", "%.2f"), "swr2": ("r2", "%.2f")}
    nm, fmt = names[kind]
    hdr = "#YY  MM DD hh mm " + ("Sep_Freq  < " if kind == "spec" else "") + "%s_1 (freq_1) %s_2 (freq_2) %s_3 (freq_3) ... >" % (nm, nm, nm)
    lines = [hdr]
    for t, row, k in zip(times, values, range(len(times))):
        s = t.strftime("%Y %m %d %H %M")
        if kind == "spec":
            s += " %.3f" % sep_freq[k]
        s += "".join((" " + fmt + " (%.3f)") % (v, f) for v, f in zip(row, freqs))
        lines.append(s)
    _w(path, "\n".join(lines) + "\n", gz)


def ndbc_history(path, times, freqs, values, fmt="%7.2f", minutes=True, gz=False):
    """History format: header with the frequencies, one record per line; older files have no minutes column."""
    hdr = ("#YY  MM DD hh mm" if minutes else "YYYY MM DD hh") + "".join(" %6.4f" % f if minutes else " %6.3f" % f for f in freqs)
    lines = [hdr]
    for t, row in zip(times, values):
        s = t.strftime("%Y %m %d %H %M") if minutes else t.strftime("%Y %m %d %H")
        lines.append(s + "".join(fmt % v for v in row))
    _w(path, "\n".join(lines) + "\n", gz)


# ----------------------------------------------------------------------------- Spotter

SPOT_PARAMS = ["Battery Voltage (V)", "Power (W)", "Humidity (%rel)", "Epoch Time", "Significant Wave Height (m)", "Peak Period (s)", "Mean Period (s)", "Peak Direction (deg)",
               "Peak Directional Spread (deg)", "Mean Direction (deg)", "Mean Directional Spread (deg)", "Latitude (deg)", "Longitude (deg)"]


def spotter_csv(path, epochs, freqs, ef, dmf, dsprf, lat, lon, extra):
    nf = len(freqs)
    cols = list(SPOT_PARAMS)
    for nm in ("f", "df", "a1", "b1", "a2", "b2", "varianceDensity", "direction", "directionalSpread"):
        cols += ["%s_%d" % (nm, i) for i in range(nf)]
    lines = [" ,".join(cols[:13]) + " ," + ",".join("%-8s" % c for c in cols[13:])]
    dfv = np.gradient(freqs) if nf > 1 else np.array([0.01])
    for k, ep in enumerate(epochs):
        row = [4.1, 0.2, 35.0, ep, extra["hs"][k], extra["tp"][k], 6.5, 200.0, 40.0, 210.0, 45.0, lat[k], lon[k]]
        vals = [repr(float(v)) if not isinstance(v, int) else "%d" % v for v in row]
        for arr in (freqs, dfv, extra["a1"][k], extra["b1"][k], extra["a2"][k], extra["b2"][k], ef[k], dmf[k], dsprf[k]):
            vals += [repr(float(v)) for v in arr]
        lines.append(",".join(vals))
    _w(path, "\n".join(lines) + "\n")


def spotter_json(path, stamps, freqs, ef, dmf, dsprf, lat, lon, extra):
    waves, fdata = [], []
    nf = len(freqs)
    dfv = (np.gradient(freqs) if nf > 1 else np.array([0.01])).tolist()
    for k, ts in enumerate(stamps):
        stamp = ts.strftime("%Y-%m-%dT%H:%M:%S.000Z")
        waves.append(dict(significantWaveHeight=float(extra["hs"][k]), peakPeriod=float(extra["tp"][k]), meanPeriod=6.5, peakDirection=200.0, peakDirectionalSpread=40.0, meanDirection=210.0,
                          meanDirectionalSpread=45.0, timestamp=stamp, latitude=float(lat[k]), longitude=float(lon[k])))
        fdata.append(dict(frequency=[float(x) for x in freqs], df=dfv, a1=[float(x) for x in extra["a1"][k]], b1=[float(x) for x in extra["b1"][k]], a2=[float(x) for x in extra["a2"][k]],
                          b2=[float(x) for x in extra["b2"][k]], varianceDensity=[float(x) for x in ef[k]], direction=[float(x) for x in dmf[k]], directionalSpread=[float(x) for x in dsprf[k]],
                          timestamp=stamp, latitude=float(lat[k]), longitude=float(lon[k])))
    with open(path, "w") as f:
        json.dump(dict(data=dict(spotterId="SPOT-0001", limit=100, waves=waves, frequencyData=fdata)), f)


# ----------------------------------------------------------------------------- Datawell SPT

def datawell_spt(directory, time, freqs, rel, dmf, dsprf, smax, hs_cm, location="buoy"):
    """File name carries the time stamp; column 2 is the psd relative to its maximum smax."""
    name = "%s}%s.spt" % (location, time.strftime("%Y-%m-%dT%Hh%MZ"))
    lines = ["10", "%.1f" % hs_cm, "4.545", "%.4E" % smax, "25.05", "19.65", "7", "-0.17625", "0.37500", "0.26250", "213.8", "68.203"]
    for f, r, a, b in zip(freqs, rel, dmf, dsprf):
        lines.append("%.3f,%.4E,%.1f,%.1f,%.2f,%.2f" % (f, r, a, b, 0.5, 2.1))
    path = os.path.join(directory, name)
    _w(path, "\n".join(lines) + "\n")
    return path


# ----------------------------------------------------------------------------- Obscape

def obscape_csv(path, epoch, freqs, dd, E_rad):
    nd = E_rad.shape[1]
    head = ["# Downloaded at 2024-04-13 19:04:00 [UTC]", "# Station name = Example file", "# Device type = Wavebuoy", "# Device serial = 123456", "# Latitude [deg] = 12.123", "# Longitude [deg] = 1.234",
            "# Timestamp = %d" % epoch, "# Timestring = x", "# Timezone = UTC", "# Magnetic declination (corrected) [deg] = 3.14", "# Directions = True North", "# ",
            "# Columns [deg] = %g,%g,%g,... %g" % (0, dd, 2 * dd, 360 - dd), "# Rows [Hz] = " + ",".join("%.6f" % f for f in freqs), "# Variance-density [m2/Hz/rad]"]
    rows = [",".join("%.4f" % v for v in E_rad[i]) for i in range(E_rad.shape[0])]
    assert nd == int(round(360 / dd))
    _w(path, "\n".join(head + rows) + "\n")


# ----------------------------------------------------------------------------- WW3 station (point output, one location)

def ww3_station(path, times, freqs, dirs_from_deg, E_rad, lat, lon, depth, wspd, wdir, name="STATION1"):
    """E_rad[time, freq, dir] in m2/Hz/rad. Directions are written in radians, nautical going-to (MOD(2.5 pi - theta_cartesian))."""
    nf, nd = len(freqs), len(dirs_from_deg)
    out = ["'WAVEWATCH III SPECTRA' %6d %5d %5d 'spectral resolution for points'" % (nf, nd, 1)]

    def block(vals, fmt, per):
        lines = []
        for i in range(0, len(vals), per):
            lines.append("".join(fmt % v for v in vals[i:i + per]))
        return lines

    out += block(list(freqs), " %.3E", 8)
    going = [math.radians((d + 180.0) % 360.0) for d in dirs_from_deg]
    out += block(going, " %.8E", 7)
    for k, t in enumerate(times):
        out.append(t.strftime("%Y%m%d %H%M%S"))
        out.append("'%-10s' %7.2f %7.2f %10.1f %7.2f %6.1f %7.2f %6.1f" % (name, lat, lon, depth[k], wspd[k], wdir[k], 0.0, 270.0))
        flat = [E_rad[k, i, j] for j in range(nd) for i in range(nf)]  # frequency fastest
        out += block(flat, " %.3E", 7)
    _w(path, "\n".join(out) + "\n")


# ----------------------------------------------------------------------------- SWAN ASCII variants

def swan_ascii(path, times, xs, ys, freqs, dirs, blocks, lonlat=True, afreq=True, ndir=True, energy_units=False, gz=False):
    """blocks[time][loc] = ('NODATA',) | ('ZERO',) | ('FACTOR', fac, ints[nf, nd]).

    dirs are the values *as written* (nautical degrees for NDIR, cartesian for CDIR).
    """
    o = ["SWAN   1                                Swan standard spectral file, version", "$   Data produced by an independent encoder", "$   Project: verif ;  run number: 01"]
    if times is not None:
        o += ["TIME                                    time-dependent data", "     1                                  time coding option"]
    o += ["%-40s%s" % ("LONLAT" if lonlat else "LOCATIONS", "locations"), "%6d                                  number of locations" % len(xs)]
    o += ["%12.6f %12.6f" % (x, y) for x, y in zip(xs, ys)]
    o += ["%-40s%s" % ("AFREQ" if afreq else "RFREQ", "frequencies in Hz"), "%6d                                  number of frequencies" % len(freqs)]
    o += ["%10.4f" % f for f in freqs]
    o += ["%-40s%s" % ("NDIR" if ndir else "CDIR", "spectral directions in degr"), "%6d                                  number of directions" % len(dirs)]
    o += ["%10.4f" % d for d in dirs]
    o += ["QUANT", "     1                                  number of quantities in table"]
    if energy_units:
        o += ["EnDens                                  energy densities in J/m2/Hz/degr", "J/m2/Hz/degr                            unit"]
    else:
        o += ["VaDens                                  variance densities in m2/Hz/degr", "m2/Hz/degr                              unit"]
    o += ["   -0.9900E+02                          exception value"]
    for k in range(len(blocks)):
        if times is not None:
            o.append("%s                         date and time" % times[k].strftime("%Y%m%d.%H%M%S"))
        for b in blocks[k]:
            if b[0] in ("NODATA", "ZERO"):
                o.append(b[0])
            else:
                o.append("FACTOR")
                o.append("    %.8E" % b[1])
                for row in b[2]:
                    o.append("".join(" %5d" % int(v) for v in row))
    _w(path, "\n".join(o) + "\n", gz)


# ----------------------------------------------------------------------------- XWaves MAT

def xwaves_mat(path, times, freqs, dirs, spec_rad):
    from scipy.io import savemat

    # date vectors stored as integers (no public description of the class used by XWaves is available)
    td = np.array([[t.year, t.month, t.day, t.hour, t.minute, t.second] for t in times], dtype="int32")
    savemat(path, dict(td=td, fd=np.array(freqs, dtype=float).reshape(-1, 1), thetad=np.array(dirs, dtype=float).reshape(1, -1), spec2d=np.asarray(spec_rad, dtype=float)))
