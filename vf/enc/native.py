"""In-memory datasets laid out in the native conventions of the supported wave models, built from a
"truth" given in physical terms (variance density per hertz per degree on coming-from directions).

Written from the format descriptions (WW3 / SWAN / WWM manuals, ERA5 documentation, NDBC THREDDS
layout) and the variable names the dataset dispatcher keys on. Nothing here imports wavespectra.
"""
import math

import numpy as np

R2D = 180.0 / math.pi
D2R = math.pi / 180.0


def truth(fg, dg, specs, nt, ns, winds, gen):
    """Physical truth: E[time, site, freq, dir] (m2/Hz/deg), f (Hz), d (deg, coming from, stored order)."""
    f = np.array(fg["f"], dtype=float)
    d = np.array(dg["d"], dtype=float)
    oi = gen.order_index(dg)
    E = np.zeros((nt, ns, len(f), len(d)))
    for t in range(nt):
        for s in range(ns):
            E[t, s] = gen.build_spectrum(specs[(t * ns + s) % len(specs)], len(f), len(d))[:, oi]
    w = [winds[(k) % len(winds)] for k in range(nt * ns)]
    wspd = np.array([x["wspd"] for x in w]).reshape(nt, ns)
    wdir = np.array([x["wdir"] for x in w]).reshape(nt, ns)
    dpt = np.array([x["dpt"] for x in w]).reshape(nt, ns)
    lon = 150.0 + 0.5 * np.arange(ns)
    lat = -35.0 + 0.25 * np.arange(ns)
    return dict(E=E, f=f, d=d, wspd=wspd, wdir=wdir, dpt=dpt, lon=lon, lat=lat, nt=nt, ns=ns)


def _times(nt):
    import pandas as pd

    return pd.date_range("2021-03-01", periods=nt, freq="1h")


def _uv(spd, coming_from_deg):
    """Components of a vector given speed and the direction it comes from."""
    going = np.deg2rad(coming_from_deg + 180.0)
    return spd * np.sin(going), spd * np.cos(going)


def ww3(T, latlon_time=True, with_wind=True, with_depth=True):
    """WAVEWATCH III station netCDF: efth in m2 s rad-1 on going-to directions (degrees)."""
    import xarray as xr

    nt, ns = T["nt"], T["ns"]
    data = dict(efth=(("time", "station", "frequency", "direction"), T["E"] * R2D))
    lon = np.tile(T["lon"], (nt, 1)) if latlon_time else T["lon"]
    lat = np.tile(T["lat"], (nt, 1)) if latlon_time else T["lat"]
    dims = ("time", "station") if latlon_time else ("station",)
    data["longitude"] = (dims, lon)
    data["latitude"] = (dims, lat)
    if with_wind:
        data["wnd"] = (("time", "station"), T["wspd"])
        data["wnddir"] = (("time", "station"), T["wdir"])
    if with_depth:
        data["dpt"] = (("time", "station"), T["dpt"])
    coords = dict(time=_times(nt), station=np.arange(1, ns + 1), frequency=T["f"], direction=(T["d"] + 180.0) % 360.0)
    return xr.Dataset(data, coords=coords)


def ncswan(T, with_wind=True, with_depth=True, latlon_time=False):
    """SWAN netCDF: density in m2/Hz/rad, direction in radians (coming from), wind as components."""
    import xarray as xr

    nt, ns = T["nt"], T["ns"]
    data = dict(density=(("time", "points", "frequency", "direction"), T["E"] * R2D))
    dims = ("time", "points") if latlon_time else ("points",)
    data["longitude"] = (dims, np.tile(T["lon"], (nt, 1)) if latlon_time else T["lon"])
    data["latitude"] = (dims, np.tile(T["lat"], (nt, 1)) if latlon_time else T["lat"])
    if with_wind:
        u, v = _uv(T["wspd"], T["wdir"])
        data["xwnd"] = (("time", "points"), u)
        data["ywnd"] = (("time", "points"), v)
    if with_depth:
        data["depth"] = (("time", "points"), T["dpt"])
    coords = dict(time=_times(nt), frequency=T["f"], direction=(T["d"] + 360.0 * T.get("turns", 0)) * D2R)
    return xr.Dataset(data, coords=coords)


def wwm(T, with_wind=True, with_depth=True):
    """WWM-II station netCDF: wave action AC(sigma, theta), SPSIG in rad/s, SPDIR in rad."""
    import xarray as xr

    nt, ns = T["nt"], T["ns"]
    sig = 2.0 * math.pi * T["f"]
    # E(f, theta_deg) = N * sigma * 2 pi / R2D  ->  N = E * R2D / (2 pi sigma)
    AC = T["E"] * R2D / (2.0 * math.pi * sig[None, None, :, None])
    data = dict(AC=(("ocean_time", "nbstation", "nfreq", "ndir"), AC), SPSIG=(("nfreq",), sig), SPDIR=(("ndir",), (T["d"] + 360.0 * T.get("turns", 0)) * D2R),
                lon=(("nbstation",), T["lon"]), lat=(("nbstation",), T["lat"]))
    if with_wind:
        u, v = _uv(T["wspd"], T["wdir"])
        data["Uwind"] = (("ocean_time", "nbstation"), u)
        data["Vwind"] = (("ocean_time", "nbstation"), v)
    if with_depth:
        data["DEP"] = (("ocean_time", "nbstation"), T["dpt"])
    return xr.Dataset(data, coords=dict(ocean_time=_times(nt)))


def era5(T, nlat=2, nlon=None):
    """ERA5 2D spectra: d2fd = log10(m2 s rad-1), NaN where there is no energy, integer freq/dir positions.

    Sites of the truth are laid out on a (latitude, longitude) grid: ns = nlat * nlon.
    """
    import xarray as xr

    nt, ns = T["nt"], T["ns"]
    nlon = nlon or ns // nlat
    assert nlat * nlon == ns
    E = T["E"].reshape(nt, nlat, nlon, len(T["f"]), len(T["d"]))
    with np.errstate(divide="ignore"):
        d2fd = np.log10(E * R2D)
    d2fd[~np.isfinite(d2fd)] = np.nan
    d2fd = np.transpose(d2fd, (0, 3, 4, 1, 2))
    coords = dict(time=_times(nt), frequency=np.arange(1, len(T["f"]) + 1, dtype="int32"), direction=np.arange(1, len(T["d"]) + 1, dtype="int32"),
                  latitude=np.linspace(10.0, -10.0, nlat) if nlat > 1 else np.array([0.0]), longitude=np.linspace(100.0, 100.0 + 2.0 * (nlon - 1), nlon))
    return xr.Dataset(dict(d2fd=(("time", "frequency", "direction", "latitude", "longitude"), d2fd)), coords=coords)


def ndbc(ef, f, a1, a2, r1, r2, directional=True, alt_names=False):
    """NDBC THREDDS layout: spectral_wave_density(time, frequency) and the four directional variables."""
    import xarray as xr

    nt = ef.shape[0]
    tn, fn, en = ("waveTime", "waveFrequency", "waveEnergyDensity") if alt_names else ("time", "frequency", "spectral_wave_density")
    data = {en: ((tn, fn), ef)}
    if directional:
        data.update(mean_wave_dir=((tn, fn), a1), principal_wave_dir=((tn, fn), a2), wave_spectrum_r1=((tn, fn), r1), wave_spectrum_r2=((tn, fn), r2))
    ds = xr.Dataset(data, coords={tn: _times(nt), fn: f})
    if not alt_names:
        ds = ds.expand_dims(latitude=[27.35], longitude=[-84.27]).transpose(tn, fn, "latitude", "longitude")
    return ds
