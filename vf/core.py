"""Facets, the Hypothesis runner, sharding, evidence, replay and known-findings handling.

A *facet* is one executable statement of (part of) a property:
    strategy  -> generates a JSON-serialisable *case* (dict of plain python values)
    check     -> builds the real objects from the case, calls the library, compares with the
                 oracle; raises Violation(clause, detail) when the property is broken.
A case being plain JSON is what makes replay trivial: the replay file is the case.
"""
import hashlib
import json
import math
import multiprocessing
import os
import sys
import time
import traceback

from . import env

EXIT_OK, EXIT_VIOLATION, EXIT_HARNESS = 0, 1, 2


class Violation(Exception):
    def __init__(self, clause, detail=""):
        super().__init__("%s: %s" % (clause, detail))
        self.clause = clause
        self.detail = detail


class _AbortShrink(BaseException):
    pass


def canon(obj):
    return json.dumps(obj, sort_keys=True, separators=(",", ":"), default=_default)


def _default(o):
    import numpy as np

    if isinstance(o, (np.integer,)):
        return int(o)
    if isinstance(o, (np.floating,)):
        return float(o)
    if isinstance(o, np.ndarray):
        return o.tolist()
    if isinstance(o, (np.bool_,)):
        return bool(o)
    raise TypeError(type(o))


def case_hash(case):
    return hashlib.sha1(canon(case).encode()).hexdigest()[:16]


class Ctx:
    """Per-case recorder handed to the check function."""

    def __init__(self):
        self.labels = []
        self.nontrivial = False
        self.sample = None
        self.excluded = None
        self.weakened = None
        self.extra_nt = 0  # further distinct non-trivial sub-cases inside this case (distinct by construction)
        self.evals = 1

    def label(self, *names):
        self.labels.extend(str(n) for n in names)

    def nt(self, flag=True):
        if flag:
            self.nontrivial = True

    def show(self, obj):
        self.sample = obj

    def exclude(self, key):
        """Case belongs to a recorded known finding: counted, not checked."""
        self.excluded = key

    def weaken(self, key):
        """One clause of this case falls in a recorded known finding: counted; the rest was checked."""
        self.weakened = key

    class _Lib:
        def __init__(self, what, allow):
            self.what, self.allow = what, allow

        def __enter__(self):
            return self

        def __exit__(self, et, ev, tb):
            if et is None or issubclass(et, (Violation,)):
                return False
            if not issubclass(et, Exception):
                return False
            if self.allow and issubclass(et, self.allow):
                return False
            frames = traceback.extract_tb(tb)
            where = ""
            for fr in reversed(frames):
                if "wavespectra" in fr.filename and "/vf/" not in fr.filename:
                    where = "%s:%d" % (os.path.basename(fr.filename), fr.lineno)
                    break
            raise Violation("raised", "%s raised %s(%s) at %s" % (self.what, et.__name__, str(ev)[:200], where)) from ev

    def lib(self, what, allow=()):
        """Wrap a library call that the property says must succeed."""
        return Ctx._Lib(what, allow)


class Facet:
    def __init__(self, name, strategy, check, quick=200, thorough=3000, doc="", qshards=1):
        self.qshards = qshards
        self.name = name
        self.strategy = strategy
        self.check = check
        self.quick = quick
        self.thorough = thorough
        self.doc = doc


class Enumeration:
    """A facet over a finite space: `items(shard, nshards)` yields cases, exhaustive when complete."""

    def __init__(self, name, items, check, tiers=("quick", "thorough"), doc="", bounds=""):
        self.name = name
        self.items = items
        self.check = check
        self.tiers = tiers
        self.doc = doc
        self.bounds = bounds


class Custom:
    """A facet that drives its own search (e.g. the native driver): fn(prop, tier, seed, shard, nshards) -> Result."""

    def __init__(self, name, fn, shards=None, tiers=("quick", "thorough"), check=None, doc=""):
        self.name = name
        self.fn = fn
        self.shards = shards or {"quick": 1, "thorough": 16}
        self.tiers = tiers
        self.check = check  # replay entry point: check(case, ctx)
        self.doc = doc


class Result:
    def __init__(self, facet):
        self.facet = facet
        self.evaluations = 0
        self.hashes = set()
        self.classes = {}
        self.samples = []
        self.excluded = {}
        self.violation = None  # dict(clause, detail, replay)
        self.error = None
        self.exhaustive = None
        self.wall = 0.0
        self.nt_extra = 0  # distinct non-trivial cases counted outside python (native driver)

    def absorb(self, case, ctx):
        self.evaluations += ctx.evals
        for l in ctx.labels:
            self.classes[l] = self.classes.get(l, 0) + 1
        if ctx.weakened:
            self.excluded[ctx.weakened] = self.excluded.get(ctx.weakened, 0) + 1
        if ctx.excluded:
            self.excluded[ctx.excluded] = self.excluded.get(ctx.excluded, 0) + 1
            return
        if ctx.nontrivial:
            h = case_hash(case)
            if h not in self.hashes:
                self.hashes.add(h)
                self.nt_extra += ctx.extra_nt
                if len(self.samples) < 3 and ctx.sample is not None:
                    self.samples.append(ctx.sample)

    def pack(self):
        return dict(
            facet=self.facet, evaluations=self.evaluations, hashes=sorted(self.hashes),
            classes=self.classes, samples=self.samples, excluded=self.excluded,
            violation=self.violation, error=self.error, exhaustive=self.exhaustive, wall=self.wall,
            nt_extra=self.nt_extra,
        )


def derive_seed(seed, *parts):
    h = hashlib.sha1(("%d|" % seed + "|".join(str(p) for p in parts)).encode()).hexdigest()
    return int(h[:12], 16)


def replay_path(prop, facet):
    d = os.path.join(env.VERIF, "replays")
    os.makedirs(d, exist_ok=True)
    return os.path.join(d, "%s-%s.json" % (prop, facet.replace("/", "_")))


def write_replay(prop, facet, case, v, suffix=""):
    p = replay_path(prop, facet + suffix)
    with open(p, "w") as f:
        json.dump(dict(property=prop, facet=facet, clause=v.clause, detail=v.detail[:2000], case=case), f, default=_default)
    return p


def _run_hypothesis(prop, facet, n, seed, shrink_budget, beat=None):
    import hypothesis
    from hypothesis import HealthCheck, Phase, given, settings

    res = Result(facet.name)
    state = dict(first_fail=None, best=None)

    def body(case):
        if state["first_fail"] is not None and time.time() - state["first_fail"] > shrink_budget:
            raise _AbortShrink()
        ctx = Ctx()
        if beat is not None:
            beat(case)
        try:
            if isinstance(case, dict) and case.get("lived") is not None:
                ctx.label("object-with-a-past")
            facet.check(case, ctx)
        except Violation as v:
            if state["first_fail"] is None:
                state["first_fail"] = time.time()
                write_replay(prop, facet.name, case, v, suffix=".unshrunk")
            state["best"] = (case, v)
            write_replay(prop, facet.name, case, v)
            raise
        finally:
            if state["first_fail"] is None:
                res.absorb(case, ctx)

    test = given(facet.strategy)(body)
    test = hypothesis.seed(seed)(test)
    test = settings(
        max_examples=n, database=None, deadline=None, derandomize=False, report_multiple_bugs=False,
        suppress_health_check=list(HealthCheck), phases=[Phase.generate, Phase.shrink], print_blob=False,
    )(test)
    try:
        test()
    except Violation:
        pass
    except _AbortShrink:
        pass
    except BaseException as e:  # noqa: BLE001
        if state["best"] is None:
            if isinstance(e, (KeyboardInterrupt, SystemExit)):
                raise
            res.error = "".join(traceback.format_exception(type(e), e, e.__traceback__))[-6000:]
    if state["best"] is not None:
        case, v = state["best"]
        res.violation = dict(clause=v.clause, detail=v.detail[:1500], replay=write_replay(prop, facet.name, case, v))
    return res


def _run_enumeration(prop, facet, shard, nshards, tier, beat=None):
    res = Result(facet.name)
    complete = True
    for case in facet.items(shard, nshards, tier):
        ctx = Ctx()
        if beat is not None:
            beat(case)
        try:
            facet.check(case, ctx)
        except Violation as v:
            res.absorb(case, ctx)
            res.violation = dict(clause=v.clause, detail=v.detail[:1500], replay=write_replay(prop, facet.name, case, v))
            complete = False
            break
        res.absorb(case, ctx)
    res.exhaustive = complete
    return res


HANG_CPU_S = 60.0  # CPU seconds one case may consume before it is declared a hang


def _job(args, beat=None):
    prop, modname, fname, tier, seed, shard, nshards, n = args
    t0 = time.time()
    try:
        env.setup()
        mod = __import__("vf.props." + modname, fromlist=["x"])
        if tier == "replay":
            with open(fname) as f:
                doc = json.load(f)
            if beat is not None:
                beat(doc["case"])
            v = replay_file(prop, modname, fname)
            res = Result(fname)
            res.evaluations = 1
            if v is not None:
                res.violation = dict(clause=v.clause, detail=v.detail[:1500], replay=fname)
            res.wall = time.time() - t0
            return res.pack()
        facet = {f.name: f for f in mod.facets()}[fname]
        if isinstance(facet, Custom):
            res = facet.fn(prop, tier, seed, shard, nshards)
        elif isinstance(facet, Enumeration):
            res = _run_enumeration(prop, facet, shard, nshards, tier, beat)
        else:
            budget = 45 if tier == "quick" else 240
            res = _run_hypothesis(prop, facet, n, derive_seed(seed, prop, fname, shard), budget, beat)
    except BaseException as e:  # noqa: BLE001
        res = Result(fname)
        res.error = "".join(traceback.format_exception(type(e), e, e.__traceback__))[-6000:]
    res.wall = time.time() - t0
    return res.pack()


class _Beat:
    """Heartbeat written by a worker before every case so the parent can name a hanging case."""

    def __init__(self, path, counter):
        self.path, self.counter = path, counter

    def __call__(self, case):
        with open(self.path, "w") as f:
            f.write(canon(case))
        self.counter.value += 1


def _child(args, conn, path, counter):
    try:
        out = _job(args, _Beat(path, counter))
    except BaseException as e:  # noqa: BLE001
        out = Result(args[2])
        out.error = repr(e)
        out = out.pack()
    try:
        conn.send(out)
    finally:
        conn.close()
        env.cleanup_workdir()


def _cpu_seconds(pid):
    """user+system CPU seconds of a process and its (waited-for) children."""
    try:
        with open("/proc/%d/stat" % pid) as f:
            parts = f.read().rsplit(")", 1)[1].split()
        tick = os.sysconf("SC_CLK_TCK")
        return (int(parts[11]) + int(parts[12])) / tick
    except Exception:  # noqa: BLE001
        return None


def _supervise(jobs, procs):
    """Run jobs in forked children (at most `procs` at once) under a per-case CPU watchdog."""
    mp = multiprocessing.get_context("fork")
    wd = env.workdir()
    pending = list(enumerate(jobs))
    running = {}
    out = [None] * len(jobs)
    while pending or running:
        while pending and len(running) < procs:
            i, job = pending.pop(0)
            rx, tx = mp.Pipe(duplex=False)
            counter = mp.Value("q", 0, lock=False)
            path = os.path.join(wd, "beat-%d.json" % i)
            pr = mp.Process(target=_child, args=(job, tx, path, counter), daemon=False)
            pr.start()
            tx.close()
            running[i] = dict(p=pr, rx=rx, counter=counter, path=path, last=-1, cpu0=0.0, job=job)
        time.sleep(0.05)
        for i, r in list(running.items()):
            done = False
            if r["rx"].poll():
                try:
                    out[i] = r["rx"].recv()
                    done = True
                except EOFError:
                    pass
            if not done and not r["p"].is_alive():
                if r["rx"].poll():
                    try:
                        out[i] = r["rx"].recv()
                    except EOFError:
                        pass
                if out[i] is None:
                    res = Result(r["job"][2])
                    case = _read_case(r["path"])
                    rc = r["p"].exitcode
                    if case is not None:
                        v = Violation("process-died", "worker died (exit code %s) while running this case" % rc)
                        res.violation = dict(clause=v.clause, detail=v.detail, replay=write_replay(r["job"][0], r["job"][2], case, v))
                    else:
                        res.error = "worker died (exit code %s) before running any case" % rc
                    out[i] = res.pack()
                done = True
            if done:
                r["p"].join(timeout=5)
                r["rx"].close()
                running.pop(i)
                try:
                    os.remove(r["path"])
                except OSError:
                    pass
                continue
            # watchdog: same case, CPU time advancing
            cnt = r["counter"].value
            cpu = _cpu_seconds(r["p"].pid)
            if cnt != r["last"] or cpu is None:
                r["last"], r["cpu0"] = cnt, (cpu or 0.0)
            elif cnt > 0 and cpu - r["cpu0"] > HANG_CPU_S:
                case = _read_case(r["path"])
                r["p"].kill()
                r["p"].join(timeout=5)
                res = Result(r["job"][2])
                v = Violation("hang", "case consumed more than %.0f CPU seconds without returning" % HANG_CPU_S)
                if case is not None:
                    res.violation = dict(clause=v.clause, detail=v.detail, replay=write_replay(r["job"][0], r["job"][2], case, v))
                else:
                    res.error = "worker hung and its case could not be read"
                out[i] = res.pack()
                r["rx"].close()
                running.pop(i)
    return out


def replay_guarded(prop, modname, paths, procs=16):
    """Replay saved cases in supervised children. Returns {path: violation dict or None}."""
    if not paths:
        return {}
    jobs = [(prop, modname, p, "replay", 0, 0, 1, 1) for p in paths]
    out = _supervise(jobs, procs)
    res = {}
    for p, r in zip(paths, out):
        if r["error"]:
            raise env.HarnessError("replay of %s failed in the harness:\n%s" % (p, r["error"]))
        res[p] = r["violation"]
    return res


def _read_case(path):
    try:
        with open(path) as f:
            return json.loads(f.read())
    except Exception:  # noqa: BLE001
        return None


def run_facets(prop, modname, tier, seed, only=None, scale=1.0, procs=16):
    """Run every facet of a property, sharded over processes; returns list of packed results."""
    env.setup()
    mod = __import__("vf.props." + modname, fromlist=["x"])
    jobs = []
    for f in mod.facets():
        if only and f.name not in only:
            continue
        if isinstance(f, (Enumeration, Custom)):
            if tier not in f.tiers:
                continue
            ns = getattr(f, "shards", None) or {}
            ns = ns.get(tier, 1 if tier == "quick" else procs)
            for s in range(ns):
                jobs.append((prop, modname, f.name, tier, seed, s, ns, 10**9))
        else:
            total = int((f.quick if tier == "quick" else f.thorough) * scale)
            if total <= 0:
                continue
            ns = max(1, getattr(f, "qshards", 1)) if tier == "quick" else min(max(1, procs), max(1, total // 50))
            per = int(math.ceil(total / ns))
            for s in range(ns):
                jobs.append((prop, modname, f.name, tier, seed, s, ns, per))
    if not jobs:
        raise env.HarnessError("no facets selected")
    jobs.sort(key=lambda j: -j[7])  # longest first
    if procs <= 0:
        return [_job(j) for j in jobs]
    return _supervise(jobs, procs)


def merge(results):
    merged = {}
    for r in results:
        m = merged.setdefault(r["facet"], dict(facet=r["facet"], evaluations=0, hashes=set(), classes={}, samples=[], excluded={}, violation=None, error=None, exhaustive=None, wall=0.0, nt_extra=0))
        m["evaluations"] += r["evaluations"]
        m["nt_extra"] += r.get("nt_extra", 0)
        m["hashes"].update(r["hashes"])
        for k, v in r["classes"].items():
            m["classes"][k] = m["classes"].get(k, 0) + v
        for k, v in r["excluded"].items():
            m["excluded"][k] = m["excluded"].get(k, 0) + v
        if len(m["samples"]) < 2:
            m["samples"].extend(r["samples"][: 2 - len(m["samples"])])
        if r["violation"] and not m["violation"]:
            m["violation"] = r["violation"]
        if r["error"] and not m["error"]:
            m["error"] = r["error"]
        if r["exhaustive"] is not None:
            m["exhaustive"] = r["exhaustive"] if m["exhaustive"] is None else (m["exhaustive"] and r["exhaustive"])
        m["wall"] = max(m["wall"], r["wall"])
    return merged


# ----------------------------------------------------------------------------- known findings

def load_findings(prop):
    """Parse KNOWN_FINDINGS.txt -> (findings for prop, fixed for prop)."""
    path = os.path.join(env.VERIF, "KNOWN_FINDINGS.txt")
    findings, fixed = [], []
    if not os.path.exists(path):
        return findings, fixed
    for line in open(path):
        line = line.strip()
        if not line or line.startswith("#"):
            continue
        kind, _, rest = line.partition(":")
        toks = rest.split()
        kv = dict(t.split("=", 1) for t in toks if "=" in t and t.split("=", 1)[0] in ("property", "key", "replay"))
        if kv.get("property") != prop:
            continue
        desc = " ".join(t for t in toks if not (("=" in t) and t.split("=", 1)[0] in ("property", "key", "replay")))
        if kind.strip() == "finding":
            findings.append(dict(key=kv.get("key"), replay=kv.get("replay"), desc=desc))
        elif kind.strip() == "fixed":
            fixed.append(dict(desc=desc))
    return findings, fixed


def finding_keys(prop):
    return {f["key"] for f in load_findings(prop)[0]}


def replay_file(prop, modname, path):
    """Re-run one saved case without Hypothesis. Returns None if it passes, else Violation."""
    env.setup()
    with open(path) as f:
        doc = json.load(f)
    mod = __import__("vf.props." + modname, fromlist=["x"])
    facet = {f.name: f for f in mod.facets()}[doc["facet"]]
    ctx = Ctx()
    ctx.replaying = True
    try:
        facet.check(doc["case"], ctx)
    except Violation as v:
        return v
    return None


# ----------------------------------------------------------------------------- evidence

def write_evidence(prop, tier, seed, merged, rule, assumptions, wall, violations, extra=None):
    evaluations = sum(m["evaluations"] for m in merged.values())
    allh = set()
    nt_extra = 0
    for name, m in merged.items():
        allh.update(name + ":" + h for h in m["hashes"])
        nt_extra += m["nt_extra"]
    samples = []
    for name, m in merged.items():
        for s in m["samples"][:1]:
            samples.append(dict(facet=name, case=s))
    for name, m in merged.items():
        for s in m["samples"][1:2]:
            if len(samples) < 12:
                samples.append(dict(facet=name, case=s))
    classes = {name: dict(sorted(m["classes"].items())) for name, m in merged.items() if m["classes"]}
    cov = dict(
        evaluations=int(evaluations),
        distinct_nontrivial=int(len(allh) + nt_extra),
        rule=rule,
        samples=samples if samples else [{"note": "no non-trivial case recorded"}],
        facets={name: dict(evaluations=m["evaluations"], distinct_nontrivial=len(m["hashes"]) + m["nt_extra"], wall_s=round(m["wall"], 1), **({"exhaustive": m["exhaustive"]} if m["exhaustive"] is not None else {})) for name, m in merged.items()},
        classes=classes,
        excluded_known={name: m["excluded"] for name, m in merged.items() if m["excluded"]},
        exhaustive=False,
    )
    if extra:
        cov.update(extra)
    doc = dict(property_id=prop, tier=tier, seed=int(seed), level="exploration", coverage=cov,
               assumptions=assumptions, wall_s=round(wall, 2), violations=int(violations))
    _validate_evidence(doc)
    d = os.path.join(env.VERIF, "evidence")
    os.makedirs(d, exist_ok=True)
    tmp = os.path.join(d, ".%s.json.tmp" % prop)
    with open(tmp, "w") as f:
        json.dump(doc, f, indent=1, default=_default)
        f.write("\n")
    os.replace(tmp, os.path.join(d, "%s.json" % prop))
    return doc


def _validate_evidence(doc):
    for k in ("property_id", "tier", "seed", "level", "coverage", "wall_s"):
        if k not in doc:
            raise env.HarnessError("evidence lacks " + k)
    c = doc["coverage"]
    if not (isinstance(c["evaluations"], int) and c["evaluations"] >= 1):
        raise env.HarnessError("evidence: evaluations < 1")
    if not (isinstance(c["distinct_nontrivial"], int) and c["distinct_nontrivial"] >= 2):
        raise env.HarnessError("evidence: distinct_nontrivial < 2 (%r)" % c["distinct_nontrivial"])
    if not (isinstance(c["samples"], list) and len(c["samples"]) >= 1):
        raise env.HarnessError("evidence: no samples")
    json.dumps(doc, default=_default)
