"""Python side of the sanitizer-instrumented native driver (native/specpart_driver.c)."""
import os
import re
import shutil
import subprocess

import numpy as np

from . import core, env

_ENV = dict(os.environ, ASAN_OPTIONS="detect_leaks=0:abort_on_error=0:exitcode=66", UBSAN_OPTIONS="print_stacktrace=1:halt_on_error=1:exitcode=66")


def _digest(err):
    """Head of a sanitizer report: the ERROR / runtime error line and the first frames."""
    lines = err.splitlines()
    for i, l in enumerate(lines):
        if "ERROR: AddressSanitizer" in l or "runtime error" in l or "ERROR: UndefinedBehaviorSanitizer" in l:
            return "\n".join(lines[i:i + 12])[:1500]
    return err[-1500:]


def driver():
    return env.build_native("specpart_driver", "specpart_driver.c")


def parse_fail(line):
    toks = line.split()
    why, nk, nth, ih = toks[1], int(toks[2]), int(toks[3]), int(toks[4])
    vals = [float.fromhex(t) for t in toks[5:]]
    return dict(nk=nk, nth=nth, ihmax=ih, values=vals), why


def run_batch(args, facet_name, prop, case_to_replay=None):
    """Run the driver in enum/rand mode; returns a core.Result."""
    res = core.Result(facet_name)
    exe = driver()
    p = subprocess.run([exe] + [str(a) for a in args], capture_output=True, text=True, env=_ENV)
    out = p.stdout
    m = re.search(r"SUMMARY cases=(\d+) nontrivial=(\d+) constant=(\d+) shifts=(\d+) calls=(\d+) fails=(\d+)", out)
    fails = [l for l in out.splitlines() if l.startswith("FAIL ")]
    if m:
        res.evaluations = int(m.group(1))
        res.nt_extra = int(m.group(2))
        res.native = dict(cases=int(m.group(1)), nontrivial=int(m.group(2)), constant=int(m.group(3)), shifts=int(m.group(4)), calls=int(m.group(5)))
        res.classes = dict(native_cases=int(m.group(1)), native_multi_basin=int(m.group(2)), native_constant=int(m.group(3)), native_shift_runs=int(m.group(4)), native_calls=int(m.group(5)))
    if fails:
        case, why = parse_fail(fails[0])
        v = core.Violation(why, "native oracle: %s on %dx%d ihmax=%d" % (why, case["nk"], case["nth"], case["ihmax"]))
        res.violation = dict(clause=why, detail=v.detail, replay=core.write_replay(prop, facet_name, case, v))
        return res
    if p.returncode != 0 or not m:
        # sanitizer report / crash: find the case by re-running with a trace file
        trace = os.path.join(env.workdir(), "trace-%d.txt" % os.getpid())
        e2 = dict(_ENV, DRIVER_TRACE=trace)
        subprocess.run([exe] + [str(a) for a in args], capture_output=True, text=True, env=e2)
        case = None
        if os.path.exists(trace):
            txt = open(trace).read().strip()
            if txt.startswith("CASE"):
                case, _ = parse_fail(txt)
            os.remove(trace)
        err = _digest(p.stderr)
        clause = "sanitizer" if ("Sanitizer" in err or "runtime error" in err) else "native-crash(rc=%d)" % p.returncode
        if case is None:
            res.error = "native driver died (rc=%d) and the case could not be identified:\n%s" % (p.returncode, err)
            return res
        v = core.Violation(clause, err[-1200:])
        res.violation = dict(clause=clause, detail=v.detail, replay=core.write_replay(prop, facet_name, case, v))
    return res


class Pipe:
    """Persistent `stdin`-mode driver: feed single cases, get labels + native oracle verdict."""

    def __init__(self):
        self.p = None

    def _start(self):
        self.p = subprocess.Popen([driver(), "stdin"], stdin=subprocess.PIPE, stdout=subprocess.PIPE, stderr=subprocess.PIPE, text=True, env=_ENV, bufsize=1)

    def ask(self, spec32, ihmax, shift=1):
        """Returns (verdict, labels array or None, stderr). verdict: None ok | reason | 'sanitizer'."""
        if self.p is None or self.p.poll() is not None:
            self._start()
        a = np.ascontiguousarray(spec32, dtype=np.float32)
        nk, nth = a.shape
        line = "%d %d %d %d %s\n" % (nk, nth, ihmax, shift, " ".join(float(x).hex() for x in a.ravel()))
        try:
            self.p.stdin.write(line)
            self.p.stdin.flush()
            out = self.p.stdout.readline()
        except BrokenPipeError:
            out = ""
        if not out:
            err = _digest(self.p.stderr.read())
            rc = self.p.wait()
            self.p = None
            return ("sanitizer" if ("Sanitizer" in err or "runtime error" in err) else "native-crash(rc=%s)" % rc), None, err
        toks = out.split()
        if toks[0] == "OK":
            return None, np.array([int(t) for t in toks[1:]]).reshape(nk, nth), ""
        if toks[0] == "FAIL":
            if toks[1] == "timeout":
                return "timeout", None, ""
            return toks[1], np.array([int(t) for t in toks[2:]]).reshape(nk, nth), ""
        raise env.HarnessError("driver said %r" % out[:100])

    def close(self):
        if self.p is not None:
            try:
                self.p.stdin.close()
                self.p.wait(timeout=5)
            except Exception:  # noqa: BLE001
                self.p.kill()
            self.p = None


_pipe = None


def pipe():
    global _pipe
    if _pipe is None:
        _pipe = Pipe()
    return _pipe


def fuzz(prop, tier, seed, shard, nshards):
    """libFuzzer campaign on the watershed routine (oracle inside the target)."""
    name = "libfuzzer"
    res = core.Result(name)
    exe = env.build_native("specpart_fuzz", "specpart_fuzz.c", fuzzer=True, extra=("-I", os.path.join(env.VERIF, "native")))
    runs = 50000 if tier == "quick" else 600000
    work = os.path.join(env.workdir(), "fuzz-%d" % shard)
    os.makedirs(work, exist_ok=True)
    fseed = (core.derive_seed(seed, prop, name, shard) % (2**31 - 2)) + 1
    p = subprocess.run([exe, "-runs=%d" % runs, "-seed=%d" % fseed, "-max_len=260", "-print_final_stats=1", "-artifact_prefix=" + work + "/", work],
                       capture_output=True, text=True, env=dict(os.environ, ASAN_OPTIONS="detect_leaks=0", UBSAN_OPTIONS="halt_on_error=1"))
    m = re.search(r"stat::number_of_executed_units:\s*(\d+)", p.stderr)
    nu = re.search(r"stat::new_units_added:\s*(\d+)", p.stderr)
    res.evaluations = int(m.group(1)) if m else 0
    res.nt_extra = int(nu.group(1)) if nu else 0  # inputs that reached new coverage: distinct by construction
    res.classes = dict(fuzz_executions=res.evaluations, fuzz_new_coverage_units=res.nt_extra, fuzz_budget_reached=int(p.returncode == 0))
    res.samples = [dict(libfuzzer=dict(runs=runs, seed=fseed, executed=res.evaluations, corpus_units=res.nt_extra))]
    arts = [a for a in os.listdir(work) if a.startswith(("crash-", "timeout-", "oom-"))]
    if p.returncode != 0 or arts:
        fails = [l for l in p.stdout.splitlines() if l.startswith("FAIL ")]
        if fails:
            case, why = parse_fail(fails[-1])
        elif arts:
            case, why = decode_fuzz_input(open(os.path.join(work, arts[0]), "rb").read()), "sanitizer"
        else:
            case, why = None, None
        if case is None:
            res.error = "libFuzzer exited with %d and no artifact:\n%s" % (p.returncode, p.stderr[-1500:])
        else:
            v = core.Violation(why, _digest(p.stderr))
            res.violation = dict(clause=why, detail=v.detail, replay=core.write_replay(prop, name, case, v))
    shutil.rmtree(work, ignore_errors=True)
    return res


IHS = [1, 2, 3, 4, 5, 7, 10, 50, 100, 1000]


def decode_fuzz_input(data):
    """Python twin of the decoding in native/specpart_fuzz.c."""
    if len(data) < 5:
        return None
    nk, nth, ih = 1 + data[0] % 12, 1 + data[1] % 16, IHS[data[2] % 10]
    mode, levels = data[3] >> 6, 2 + (data[3] & 7)
    vals = []
    for i in range(nk * nth):
        b = data[4 + (i % (len(data) - 4))]
        if mode == 0:
            vals.append(float(b % levels))
        elif mode == 1:
            vals.append(float(np.float32(b) / np.float32(255.0)))
        elif mode == 2:
            vals.append(0.0 if (b & 3) else float(1 + (b >> 2)))
        else:
            vals.append(float(np.exp(np.float32(-b / 16.0), dtype=np.float32)))
    return dict(nk=nk, nth=nth, ihmax=ih, values=vals)


