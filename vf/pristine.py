"""Executed in a pristine process (forkserver preload): wavespectra imported, no operation ever run.

`run(payload)` rebuilds an object from a plain-numpy model, applies one catalogue operation and returns
the result in plain form (numpy + dict attrs).
"""
import numpy as np

from . import env

env.setup()


def plain_attrs(a):
    out = {}
    for k, v in dict(a).items():
        if isinstance(v, dict):
            out[str(k)] = plain_attrs(v)
        elif isinstance(v, np.ndarray):
            out[str(k)] = ("ndarray", v.tolist())
        elif isinstance(v, (np.generic,)):
            out[str(k)] = v.item()
        else:
            out[str(k)] = v if isinstance(v, (int, float, str, bool, type(None))) else repr(v)
    return out


def build(model):
    """model: dict(kind, name, dims, coords{name: array}, values, extra{name: (dims, values)}, attrs)."""
    import xarray as xr

    coords = {k: (np.array(v[1]).astype(v[0]) if isinstance(v, (list, tuple)) and len(v) == 2 and isinstance(v[0], str) else np.array(v)) for k, v in model["coords"].items()}
    da = xr.DataArray(np.array(model["values"], dtype=model["dtype"]), coords=coords, dims=model["dims"], name=model["name"], attrs=dict(model.get("attrs", {})))
    if model["kind"] == "DataArray":
        return da
    ds = da.to_dataset(name="efth")
    for k, (dims, vals) in model.get("extra", {}).items():
        ds[k] = (tuple(dims), np.array(vals, dtype=float))
    return ds


def plain_result(res):
    from . import ops

    out = {}
    for k, part in ops.parts_of(res).items():
        part = part.compute()
        out[k] = dict(dims=list(part.dims), values=np.asarray(part.values), coords={d: np.asarray(part[d].values) for d in part.dims if d in part.coords}, attrs=plain_attrs(part.attrs), name=part.name)
    return out


def apply(obj, spec, aux_names=("wspd", "wdir", "dpt")):
    """Apply an operation spec through the object's accessor (Dataset -> Dataset accessor)."""
    import xarray as xr
    from . import ops

    if spec["op"] == "stats_bad":
        # an unknown statistic name must be rejected every time, whatever was asked before
        arr = obj.efth if isinstance(obj, xr.Dataset) else obj
        return arr.spec.stats(["hs", "nosuch"])
    if isinstance(obj, xr.Dataset):
        aux = {k: obj[k] for k in aux_names if k in obj}

        class _DS:
            def __init__(self, d):
                self.spec, self.sizes, self.freq, self.dir = d.spec, d.efth.sizes, d.efth.freq, d.efth.dir

        target = _DS(obj) if spec.get("via", "dataset") == "dataset" else obj.efth
        return ops.apply(spec, target, aux)
    return ops.apply(spec, obj, spec.get("_aux"))


def run(payload):
    model, spec = payload
    obj = build(model)
    try:
        return ("ok", plain_result(apply(obj, spec)))
    except Exception as e:  # noqa: BLE001
        return ("raised", type(e).__name__)
