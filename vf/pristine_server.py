"""A tiny fork server whose parent process has imported wavespectra (extension built from the tree) but
never executes an operation; every request is served by a freshly forked child, so each child starts
with the C routine's static buffers unallocated and the attribute table untouched.

Protocol on stdin/stdout: 8-byte big-endian length + pickle. The server exits when stdin closes, so it
cannot outlive the worker that started it.
"""
import os
import pickle
import struct
import sys


def _read(n, fd):
    buf = b""
    while len(buf) < n:
        chunk = os.read(fd, n - len(buf))
        if not chunk:
            return None
        buf += chunk
    return buf


def main():
    out = os.dup(1)
    os.dup2(2, 1)  # anything printed by libraries goes to stderr, not into the protocol stream
    from vf import pristine  # noqa: F401  (imports wavespectra through env.setup)

    os.write(out, b"READY\n")
    while True:
        hdr = _read(8, 0)
        if hdr is None:
            break
        payload = pickle.loads(_read(struct.unpack(">Q", hdr)[0], 0))
        r, w = os.pipe()
        pid = os.fork()
        if pid == 0:
            os.close(r)
            try:
                res = pristine.run(payload)
            except BaseException as e:  # noqa: BLE001
                res = ("harness-error", repr(e))
            data = pickle.dumps(res)
            with os.fdopen(w, "wb") as f:
                f.write(data)
            os._exit(0)
        os.close(w)
        with os.fdopen(r, "rb") as f:
            data = f.read()
        _, status = os.waitpid(pid, 0)
        if not data:
            data = pickle.dumps(("died", status))
        os.write(out, struct.pack(">Q", len(data)) + data)


if __name__ == "__main__":
    main()
