"""C08 - regridding is exact on grid nodes, conserves variance and respects the circle."""
import math

import numpy as np
from hypothesis import strategies as st

from .. import gen
from ..core import Facet, Violation
from ..ref import stats as R

PROP = "C08"
RULE = (
    "A case is (source dataset: 2..12 frequencies, 2..18 uniform full-circle directions stored sorted, rolled or "
    "descending, optionally with a duplicated 0/360 bin; 0-2 leading dims with zero spectra mixed into batches; target "
    "frequencies: same / midpoints / coarser / shifted / extending below fmin and above fmax; target directions: same / "
    "coarser / finer / shifted uniform full-circle grids; maintain_m0 on or off) or (dataset, rotation angle: bin "
    "multiples, 360, arbitrary reals). Oracles: requested coordinates returned exactly; identity on the source grid; "
    "non-negativity; zero above source fmax; Hs conserved per spectrum with maintain_m0; without it equality with an "
    "independent circular bilinear interpolation (wrap padding, np.interp per axis, zero anchor at f=0); rotate(k*dd) = "
    "roll, rotate(360) = identity. Non-trivial = target differs from source and a target direction falls in the seam "
    "gap or a target frequency lies outside the source range; distinct by canonical hash."
)
ASSUMPTIONS = [
    "Hs measured with the independent reference on the target grid (bin width = spacing of the sorted target directions)",
    "a duplicated 0/360 source bin carries identical data in both copies (which copy is kept is not specified)",
    "conservation cannot hold when the interpolated spectrum has no energy at all (e.g. every target frequency above fmax); the output must then be zero, not NaN",
]


@st.composite
def target_freq(draw, f):
    f = np.array(f)
    mode = draw(st.sampled_from(["same", "mid", "coarse", "shift", "below", "above", "both", "single_inside"]))
    if mode == "same":
        out = f
    elif mode == "mid":
        out = 0.5 * (f[:-1] + f[1:])
    elif mode == "coarse":
        out = f[::2] if len(f) > 2 else f
    elif mode == "shift":
        out = f * draw(st.sampled_from([0.97, 1.02]))
    elif mode == "below":
        out = np.concatenate([[f[0] * 0.3, f[0] * 0.7], f])
    elif mode == "above":
        out = np.concatenate([f, [f[-1] * 1.05, f[-1] * 1.5]])
    elif mode == "both":
        out = np.concatenate([[f[0] * 0.5], 0.5 * (f[:-1] + f[1:]), [f[-1] * 1.2]])
    else:
        out = np.array([0.5 * (f[0] + f[-1]), f[-1]])
    return dict(mode=mode, f=[float(x) for x in out])


@st.composite
def target_dir(draw, dasc):
    n = len(dasc)
    mode = draw(st.sampled_from(["same", "coarse", "fine", "shift", "shift_small", "other_n"]))
    if mode == "same":
        out = list(dasc)
    elif mode == "coarse":
        m = max(2, n // 2)
        out = [i * 360.0 / m for i in range(m)]
    elif mode == "fine":
        out = [i * 360.0 / (2 * n) for i in range(2 * n)]
    elif mode == "shift":
        dd = 360.0 / n
        out = sorted(((d + 0.5 * dd) % 360.0) for d in dasc)
    elif mode == "shift_small":
        off = draw(st.sampled_from([0.25, 1.0, -0.5]))
        out = sorted(((d + off) % 360.0) for d in dasc)
    else:
        m = draw(st.sampled_from([3, 5, 8, 24]))
        out = [i * 360.0 / m for i in range(m)]
    if draw(st.booleans()) and len(out) > 2:
        k = draw(st.integers(1, len(out) - 1))
        out = out[k:] + out[:k]
    return dict(mode=mode, d=[float(x) for x in out])


@st.composite
def regrid_case(draw):
    fg = draw(gen.freq_grid(2, 12))
    dg = draw(gen.dir_grid(2, 18))
    dims = draw(gen.extra_dims(maxdims=2, maxsize=3))
    npos = int(np.prod([n for _, n in dims])) if dims else 1
    specs = [draw(gen.spectrum(kinds=("multinoisy", "multi", "sparse", "zero", "noisy", "monotone"))) for _ in range(min(npos, 3))]
    what = draw(st.sampled_from(["freq", "dir", "both", "both"]))
    return dict(fg=fg, dg=dg, dims=dims, specs=specs, dtype=draw(st.sampled_from(["float64", "float32"])), lived=draw(gen.lived()),
                tf=draw(target_freq(fg["f"])) if what in ("freq", "both") else None,
                td=draw(target_dir(sorted(dg["d"]))) if what in ("dir", "both") else None,
                m0=draw(st.booleans()), dup=draw(st.integers(0, 4)) == 0, as_list=draw(st.booleans()), cdtype=draw(gen.coord_dtypes()),
                via=draw(st.sampled_from(["interp", "interp", "interp_like", "interp_like_dataset", "regrid_spec", "dataset"])))


def _source(case):
    import xarray as xr

    da = gen.build_dataarray(case["fg"], case["dg"], case["specs"], case["dims"], dtype=case["dtype"], lived=case.get("lived"), cdtype=case.get("cdtype"))
    lowest = float(np.min(da.dir.values))
    dup = bool(case.get("dup")) and ((lowest + 360.0) % 360.0 == lowest)
    if dup:
        # duplicate the lowest direction bin at +360 with identical data (only when the label is exact under % 360)
        lo = da.sortby("dir").isel(dir=[0])
        lo = lo.assign_coords(dir=lo.dir + 360.0)
        da = xr.concat([da, lo], dim="dir")
        da = da.copy(data=np.ascontiguousarray(da.values))
    return da, dup


def ref_regrid(E, f, d, tf, td):
    """Independent circular bilinear interpolation. E[f, d] with labels f (ascending) and d (any order)."""
    f = np.asarray(f, dtype=float)
    d = np.asarray(d, dtype=float) % 360.0
    E = np.asarray(E, dtype=float)
    out = E
    if td is not None:
        # unique directions, sorted
        ud, idx = np.unique(d, return_index=True)
        E = E[:, idx]
        td = np.asarray(td, dtype=float)
        pd_ = np.concatenate([[ud[-1] - 360.0], ud, [ud[0] + 360.0]])
        res = np.empty((E.shape[0], len(td)))
        for i in range(E.shape[0]):
            row = np.concatenate([[E[i, -1]], E[i], [E[i, 0]]])
            res[i] = np.interp(td, pd_, row)
        out = res
    if tf is not None:
        tf = np.asarray(tf, dtype=float)
        ff = f
        oo = out
        if tf.min() < f.min():
            ff = np.concatenate([[0.0], f])
            oo = np.vstack([np.zeros((1, out.shape[1])), out])
        res = np.empty((len(tf), out.shape[1]))
        for j in range(out.shape[1]):
            res[:, j] = np.interp(tf, ff, oo[:, j], left=0.0, right=0.0)
        res[tf > f.max(), :] = 0.0
        res[tf < ff.min(), :] = 0.0
        out = res
    return out


def check_regrid(case, ctx):
    from .c01 import _positions

    da, dup = _source(case)
    f = np.asarray(da.freq.values, dtype=float)  # the coordinates as stored (float32 storage rounds them)
    sd = np.asarray(da.dir.values, dtype=float)
    ctx.label("coords=" + str(da.freq.dtype) + "/" + str(da.dir.dtype))
    tf = case["tf"]["f"] if case["tf"] else None
    td = case["td"]["d"] if case["td"] else None
    kw = {}
    if tf is not None:
        kw["freq"] = list(tf) if case["as_list"] else np.array(tf)
    if td is not None:
        kw["dir"] = list(td) if case["as_list"] else np.array(td)
    via = case.get("via", "interp")
    if via.startswith("interp_like") and (tf is None or td is None):
        via = "interp"
    with ctx.lib("%s(%s, maintain_m0=%s)" % (via, ", ".join(kw), case["m0"])):
        if via == "interp":
            out = da.spec.interp(maintain_m0=case["m0"], **kw).compute()
        elif via.startswith("interp_like"):
            # the target basis given by another spectra object (its values play no part)
            import xarray as xr

            other = xr.DataArray(np.ones((len(tf), len(td))), coords=dict(freq=np.array(tf), dir=np.array(td)), dims=("freq", "dir"), name="efth")
            out = da.spec.interp_like(other.to_dataset() if via.endswith("dataset") else other, maintain_m0=case["m0"]).compute()
        elif via == "regrid_spec":
            from wavespectra.core.utils import regrid_spec

            out = regrid_spec(da, maintain_m0=case["m0"], **kw).compute()
        else:
            out = da.to_dataset(name="efth").spec.interp(maintain_m0=case["m0"], **kw)
            out = (out.efth if hasattr(out, "data_vars") else out).compute()
    ctx.label("via=" + via)
    # coordinates exactly as requested
    if tf is not None and not np.array_equal(np.asarray(out.freq.values, dtype=float), np.array(tf)):
        raise Violation("coords", "freq returned %s, requested %s" % (out.freq.values[:6], tf[:6]))
    if td is not None and not np.array_equal(np.asarray(out.dir.values, dtype=float), np.array(td)):
        raise Violation("coords", "dir returned %s, requested %s" % (out.dir.values[:6], td[:6]))
    if set(out.dims) != set(da.dims):
        raise Violation("dims", "%s vs %s" % (out.dims, da.dims))
    out = out.transpose(*da.dims)
    ov = np.asarray(out.values, dtype=float)
    if np.any(np.isnan(ov)):
        raise Violation("nan", "interpolated spectra contain NaN (%d bins)" % int(np.isnan(ov).sum()))
    if ov.min() < 0:
        raise Violation("negative", "negative energy %r from non-negative input" % ov.min())
    of = np.asarray(out.freq.values, dtype=float)
    od = np.asarray(out.dir.values, dtype=float)
    above = of > f.max()
    if np.any(above) and np.any(out.isel(freq=np.nonzero(above)[0]).values != 0):
        raise Violation("above-fmax", "energy above the highest source frequency %r" % f.max())
    rt = 1e-9 if case["dtype"] == "float64" else 2e-5
    if da.freq.dtype == np.float32 or da.dir.dtype == np.float32:
        rt = 2e-5  # weights and bin widths are then evaluated in single precision
    same_grid = (tf is None or list(tf) == list(f)) and (td is None or sorted(td) == sorted((sd % 360.0).tolist()) and not dup)
    sdd = 360.0 / case["dg"]["n"]
    odd = R.dd_partial(od)
    src_sorted_unique = np.unique(sd % 360.0)
    seam_gap = td is not None and any((t < src_sorted_unique.min() or t > src_sorted_unique.max()) for t in td)
    outside = tf is not None and (min(tf) < f.min() or max(tf) > f.max())
    for (lead, idx, E), (_, _, O) in zip(_positions(da, True), _positions(out, True)):
        zero_in = not np.any(E)
        if zero_in and np.any(O):
            raise Violation("zero", "zero spectrum became non-zero")
        if same_grid:
            # identity by label
            oi = [int(np.nonzero(np.isclose(od % 360.0, x % 360.0))[0][0]) for x in sd]
            if not np.allclose(O[:, oi], E, rtol=max(rt, 1e-12), atol=0):
                raise Violation("identity", "interpolating onto the source grid changed the spectrum at %s (max rel diff %r)" % (dict(zip(lead, idx)), float(np.max(np.abs(O[:, oi] - E) / np.maximum(np.abs(E), 1e-300)))))
        want = ref_regrid(E, f, sd, tf, td)
        if not case["m0"]:
            scale = max(np.abs(want).max(), np.abs(E).max(), 1e-300)  # rounding of the weights is relative to the source values
            if not np.all(np.abs(O - want) <= 4 * rt * scale + 1e-12 * scale):
                i, j = np.argwhere(np.abs(O - want) > 4 * rt * scale + 1e-12 * scale)[0]
                raise Violation("bilinear", "bin (f=%r, dir=%r): %r, circular bilinear interpolation of the neighbouring source bins gives %r at %s" % (of[i], od[j], O[i, j], want[i, j], dict(zip(lead, idx))))
        else:
            hin = R.Spec(E, f, sd, dd=sdd).hs()
            hraw = R.Spec(want, of, od, dd=odd).hs()
            hout = R.Spec(O, of, od, dd=odd).hs()
            if hin > 0 and hraw <= 1e-6 * hin:
                # what survives the interpolation is (next to) nothing - e.g. energy only in directions the coarser target skips,
                # plus a weight of 1e-19 from a node 2e-17 deg away; rescaling that to the source Hs amplifies rounding by 1e38:
                # the variance clause is not decidable there
                ctx.label("m0-ill-conditioned(skipped)")
            elif hraw > 0 and hin > 0:
                if abs(hout - hin) > 4 * rt * hin:
                    raise Violation("m0", "Hs of source %r, Hs after interp(maintain_m0=True) %r at %s" % (hin, hout, dict(zip(lead, idx))))
                # shape must be the bilinear interpolant up to the single factor
                fac = (hin / hraw) ** 2
                scale = max(np.abs(want).max() * fac, 1e-300)
                if not np.all(np.abs(O - want * fac) <= 8 * rt * scale):
                    raise Violation("m0-shape", "maintain_m0 output is not a single multiple of the interpolated spectrum at %s" % (dict(zip(lead, idx)),))
            elif np.any(O):
                raise Violation("m0-zero", "no energy after interpolation but output non-zero")
    ctx.nt((not same_grid) and (seam_gap or outside))
    ctx.label("tf=%s" % (case["tf"]["mode"] if case["tf"] else "-"), "td=%s" % (case["td"]["mode"] if case["td"] else "-"), "m0=%s" % case["m0"], "dorder=" + case["dg"]["order"],
              "dup0/360" if dup else "nodup", "dtype=" + case["dtype"])
    if seam_gap:
        ctx.label("target-in-seam-gap")
    ctx.show(gen.describe(case["fg"], case["dg"], case["specs"], case["dims"], tf=case["tf"], td=case["td"], m0=case["m0"], dup=dup))


@st.composite
def rot_case(draw):
    fg = draw(gen.freq_grid(2, 10))
    dg = draw(gen.dir_grid(2, 18))
    dims = draw(gen.extra_dims(maxdims=1, maxsize=3))
    npos = int(np.prod([n for _, n in dims])) if dims else 1
    specs = [draw(gen.spectrum(kinds=("multinoisy", "multi", "sparse", "zero"))) for _ in range(min(npos, 3))]
    return dict(fg=fg, dg=dg, dims=dims, specs=specs, dtype=draw(st.sampled_from(["float64", "float32"])), lived=draw(gen.lived()), cdtype=draw(st.sampled_from(["f64", "f64", "int-dir"])), dup=draw(st.integers(0, 3)) == 0,
                kind=draw(st.sampled_from(["bin", "bin", "360", "any", "any"])), k=draw(st.integers(-20, 20)), a=draw(st.floats(-720, 720)))


def check_rotate(case, ctx):
    from .c01 import _positions

    # the duplicated bin of the statement is the 0 / 360 pair: only grids whose lowest label is exactly 0 get one here
    da, dup = _source(case if min(case["dg"]["d"]) == 0.0 else dict(case, dup=False))
    f, d = np.array(case["fg"]["f"]), np.asarray(da.dir.values, dtype=float)
    ctx.label("dir-labels=" + str(da.dir.dtype), "dup0/360" if dup else "nodup")
    n = case["dg"]["n"]
    dd = 360.0 / n
    a = {"bin": case["k"] * dd, "360": 360.0 * (1 if case["k"] >= 0 else -1), "any": case["a"]}[case["kind"]]
    with ctx.lib("spec.rotate(%r)" % a):
        out = da.spec.rotate(a).compute()
    if not np.array_equal(out.dir.values, da.dir.values) or not np.array_equal(out.freq.values, da.freq.values):
        raise Violation("coords", "rotate changed the coordinates: %s" % out.dir.values[:5])
    out = out.transpose(*da.dims)
    ov = np.asarray(out.values, dtype=float)
    if np.any(np.isnan(ov)) or ov.min() < 0:
        raise Violation("negative-or-nan", "min %r nan %d" % (np.nanmin(ov), int(np.isnan(ov).sum())))
    rt = 1e-9 if case["dtype"] == "float64" else 2e-5
    for (lead, idx, E), (_, _, O) in zip(_positions(da, True), _positions(out, True)):
        hin, hout = R.Spec(E, f, d).hs(), R.Spec(O, f, d).hs()
        if abs(hin - hout) > 4 * rt * max(hin, 1e-300):
            raise Violation("hs", "Hs %r before, %r after rotate(%r)" % (hin, hout, a))
        if case["kind"] in ("bin", "360") and not (dup and case["kind"] == "bin"):
            # E_rot(theta) = E(theta - a): exact relabelling for whole bins (with a duplicated 0/360 bin only the
            # every-angle invariants and the 360-degree identity are judged)
            k = case["k"] if case["kind"] == "bin" else 0
            asc = np.argsort(d)
            Ea = E[:, asc]
            want_asc = np.roll(Ea, k, axis=1)
            want = np.empty_like(E)
            want[:, asc] = want_asc
            scale = max(np.abs(E).max(), 1e-300)
            if not np.all(np.abs(O - want) <= max(rt, 1e-9) * scale):
                raise Violation("rotate-bin", "rotate(%r) is not a circular shift by %d bins at %s" % (a, k, dict(zip(lead, idx))))
    ctx.nt(abs(a % 360.0) > 1e-9 or case["kind"] == "360")
    ctx.label("angle=" + case["kind"], "dorder=" + case["dg"]["order"], "dtype=" + case["dtype"])
    ctx.show(gen.describe(case["fg"], case["dg"], case["specs"], case["dims"], angle=a))


def facets():
    return [
        Facet("interp", regrid_case(), check_regrid, quick=2400, thorough=60000, qshards=8),
        Facet("rotate", rot_case(), check_rotate, quick=1200, thorough=30000, qshards=4),
    ]
