"""C03 - watershed partitions (PTM1/2/3) are a sound, ordered, energy-conserving split."""
import math

import numpy as np
from hypothesis import strategies as st

from .. import gen
from ..core import Enumeration, Facet, Violation
from ..ref import stats as R
from ..ref import watershed as W

PROP = "C03"
RULE = (
    "A case is (grid 2..14 x 2..20, spectrum of any kind incl. constant / sparse / plateau / zero, float32 or float64, "
    "wind speed 0..40, wind direction, depth 0.5..5000, agefac 0.5..3, wscut 0..1, ihmax, and a requested count drawn "
    "relative to the number of basins the watershed detects: below, equal, above). Facet np: np_ptm1/2/3 on arrays, "
    "validity predicates plus a differential re-assembly from the label map. Facet accessor: spec.partition.ptm1/2/3 "
    "on 0-2 leading dims with per-position wind/depth and optional smoothing, predicates at every position. "
    "Non-trivial = at least two detected basins and one of: a wind-sea basin, requested < detected, requested > "
    "detected; distinct by canonical hash."
)
ASSUMPTIONS = [
    "the label map used by the differential re-assembly comes from the tree's own watershed (verified separately by C04)",
    "the wind-sea bin rule inside PTM1/PTM2 uses the library's celerity() (checked against the dispersion relation in C01); cases with a bin within 1e-9 of the wave-age boundary or a basin within 1e-9 of the wscut threshold skip only the differential comparison",
    "swell order is judged with an independent trapezoid Hs; partitions whose Hs agree to 1e-12 relative form a tie group compared as a set",
]

IHS = [1, 2, 3, 5, 10, 50, 100, 1000]


@st.composite
def part_case(draw, accessor=False, threaded=False):
    fg = draw(gen.freq_grid(20, 32)) if threaded else draw(gen.freq_grid(2, 14))
    dg = draw(gen.dir_grid(24, 36, spacing=("whole",))) if threaded else draw(gen.dir_grid(2, 20))
    dims = [["time", draw(st.integers(64, 160))]] if threaded else draw(gen.extra_dims(maxdims=2, maxsize=3)) if accessor else []
    npos = int(np.prod([n for _, n in dims])) if dims else 1
    specs = [draw(gen.spectrum(kinds=("multinoisy", "multi") if threaded else gen.MULTI_KINDS)) for _ in range(min(npos, 3))]
    winds = [dict(wspd=draw(st.one_of(st.floats(0, 40), st.sampled_from([0.0, 40.0]))), wdir=draw(st.floats(0, 360)), dpt=draw(st.sampled_from([0.5, 5.0, 30.0, 200.0, 5000.0])))
             for _ in range(min(npos, 3))]
    return dict(
        fg=fg, dg=dg, dims=dims, specs=specs, winds=winds, dtype=draw(st.sampled_from(["float64", "float32"])),
        agefac=draw(st.sampled_from([0.5, 1.0, 1.7, 3.0])), wscut=draw(st.sampled_from([0.0, 0.1, 0.3333, 0.7, 1.0])),
        ihmax=draw(st.sampled_from(IHS)), rel=draw(st.sampled_from([-3, -2, -1, 0, 0, 1, 3])),
        method=draw(st.sampled_from(["ptm1", "ptm2", "ptm3"])), smooth=False if threaded else draw(st.booleans()) if accessor else False,
        threads=draw(st.sampled_from([4, 8, 16])) if threaded else 0,
        pre=draw(st.one_of(st.none(), st.none(), st.integers(0, 7))),
        smooth_src=draw(st.sampled_from([None, None, "box", "other"])), other=draw(gen.spectrum(kinds=gen.MULTI_KINDS)),
    )


def _np_hs(E, f, dirs):
    return R.np_hs(E, f, dirs)


def predicates(out, spectrum, f, dirs, lead, requested_total, detected, n_wsea, where=""):
    """Validity predicates straight from the statement. out: (npart, nf, nd); spectrum: (nf, nd)."""
    if out.shape[0] != requested_total:
        raise Violation("count", "%d partitions returned, %d requested %s" % (out.shape[0], requested_total, where))
    src = spectrum.astype(out.dtype)
    nz = out != 0
    if np.any(nz & (out != src[None])):
        p, i, j = np.argwhere(nz & (out != src[None]))[0]
        raise Violation("value", "partition %d bin (%d,%d) holds %r, input holds %r %s" % (p, i, j, out[p, i, j], src[i, j], where))
    if np.any(nz.sum(axis=0) > 1):
        i, j = np.argwhere(nz.sum(axis=0) > 1)[0]
        raise Violation("overlap", "bin (%d,%d) is non-zero in %d partitions %s" % (i, j, nz.sum(axis=0)[i, j], where))
    tot = out.sum(axis=0)
    if np.any(tot > src):
        raise Violation("excess", "partitions add up to more than the input %s" % where)
    swells = out[n_wsea:]
    hs = [_np_hs(np.asarray(s, dtype=np.float64), f, dirs) for s in swells]
    for a in range(len(hs) - 1):
        if hs[a + 1] > hs[a] * (1 + 2e-6) + 1e-300:  # the library ranks by a single-precision-level Hs: closer than that is a tie
            raise Violation("order", "swell %d has Hs %r < swell %d with Hs %r %s" % (a, hs[a], a + 1, hs[a + 1], where))
    empties = [not np.any(s) for s in swells]
    if any(e and not e2 for e, e2 in zip(empties[:-1], empties[1:])):
        raise Violation("empties-last", "an empty swell partition precedes a non-empty one %s" % where)
    return tot, src, hs


def check_np(case, ctx):
    from wavespectra.core.utils import celerity
    from wavespectra.partition import partition as P
    from wavespectra.partition import specpart

    f = np.array(case["fg"]["f"])
    dirs = np.array(case["dg"]["d"])
    E = gen.build_spectrum(case["specs"][0], len(f), len(dirs), dtype=np.dtype(case["dtype"]))[:, gen.order_index(case["dg"])]
    E = np.ascontiguousarray(E)
    w = case["winds"][0]
    ih = case["ihmax"]
    pre = case.get("pre")
    if pre is not None:
        # the routine has been used on another grid before (same number of bins where the grid allows it, so that
        # whatever it keeps between calls and sizes by the bin count would be reused): the statement holds regardless
        n = E.size
        pairs = [(a_, n // a_) for a_ in range(1, n + 1) if n % a_ == 0 and (a_, n // a_) != E.shape] or [(E.shape[1], E.shape[0])]
        shp = pairs[pre % len(pairs)]
        with ctx.lib("specpart.partition on a %dx%d grid first" % shp):
            specpart.partition(gen.build_spectrum(case["specs"][0], shp[0], shp[1], dtype=np.float32), ih)
        ctx.label("other-shape-first")
    # the numpy-level functions take the spectrum and, separately, the (smoothed) spectrum that draws the watershed
    # boundaries: the partitions - and every fraction decided on them - hold the former
    S = E
    if case.get("smooth_src") == "box":
        S = np.mean([np.roll(np.pad(E, ((1, 1), (0, 0)), mode="edge"), (0, j), axis=(0, 1))[1 + i:E.shape[0] + 1 + i] for i in (-1, 0, 1) for j in (-1, 0, 1)], axis=0).astype(E.dtype)
    elif case.get("smooth_src") == "other":
        S = np.ascontiguousarray(gen.build_spectrum(case["other"], E.shape[0], E.shape[1], dtype=np.dtype(case["dtype"])))
    if S is not E:
        ctx.label("boundaries-from=" + case["smooth_src"])
    with ctx.lib("specpart.partition"):
        wmap = np.asarray(specpart.partition(np.ascontiguousarray(S, dtype=np.float32), ih))
    detected = int(wmap.max())
    # "as many as the watershed detects" is a property of the spectrum: regional maxima of its discretised levels,
    # counted independently of the routine
    from ..ref import watershed as W

    why, nref = W.check_map(np.ascontiguousarray(S, dtype=np.float32), ih, wmap)
    if why is not None:
        raise Violation("watershed-map", "the label map behind the partitions is not the watershed of the spectrum: %s (%d labels, %d regional maxima) on a %dx%d grid" % (why, detected, nref, E.shape[0], E.shape[1]))
    req = max(0 if case["method"] != "ptm3" else 1, detected + case["rel"])
    method = case["method"]
    with ctx.lib("np_%s" % method):
        if method == "ptm3":
            out = P.np_ptm3(E, S, f, dirs, parts=req, ihmax=ih)
        else:
            fn = P.np_ptm1 if method == "ptm1" else P.np_ptm2
            out = fn(E, S, f, dirs, w["wspd"], w["wdir"], w["dpt"], agefac=case["agefac"], wscut=case["wscut"], swells=req, ihmax=ih)
    out = np.asarray(out)
    n_wsea = {"ptm1": 1, "ptm2": 2, "ptm3": 0}[method]
    tot, src, hs = predicates(out, E, f, dirs, None, req + n_wsea, detected, n_wsea)
    if req >= detected and not np.array_equal(tot, src):
        raise Violation("conservation", "requested %d >= detected %d but partitions do not add up to the input (max missing %r)" % (req, detected, float((src - tot).max())))
    # differential re-assembly from the label map
    basins = [np.where(wmap == k, E, 0.0).astype(E.dtype) for k in range(1, detected + 1)]
    wind_basin = False
    exp_sw, exp_ws = list(basins), []
    skip_diff = False
    if method != "ptm3":
        with ctx.lib("celerity"):
            c = np.asarray(celerity(f, w["dpt"]))
        up = case["agefac"] * w["wspd"] * np.cos(R.D2R * (dirs - w["wdir"]))
        diff = up[None, :] - c[:, None]
        if np.any(np.abs(diff) <= 1e-9 * np.abs(c[:, None])):
            skip_diff = True
        mask = diff > 0
        ws1 = np.zeros_like(E)
        ws2 = np.zeros_like(E)
        exp_sw = []
        for b in basins:
            s = float(b.sum())
            frac = float(b[mask].sum()) / s if s > 0 else float("nan")
            # a fraction of exactly zero is robust (no energy under the wave-age curve): "exceeds" is strict there
            # the library forms the fraction in the dtype of the data: within that resolution of the cutoff it is a boundary case
            if not math.isnan(frac) and abs(frac - case["wscut"]) <= (1e-6 if case["dtype"] == "float32" else 1e-9) and not (frac == 0.0 and case["wscut"] == 0.0):
                skip_diff = True
            if frac > case["wscut"]:
                ws1 = ws1 + b
                wind_basin = True
                exp_sw.append(np.zeros_like(E))
            elif method == "ptm2":
                ws2 = ws2 + np.where(mask, b, 0.0).astype(E.dtype)
                exp_sw.append(np.where(mask, 0.0, b).astype(E.dtype))
            else:
                exp_sw.append(b)
        exp_ws = [ws1] if method == "ptm1" else [ws1, ws2]
    if not skip_diff:
        for a, (got, want) in enumerate(zip(out[:n_wsea], exp_ws)):
            if not np.array_equal(got, want):
                raise Violation("wind-sea", "wind-sea partition %d differs from the stated rule (wind-sea fraction > wscut%s)" % (a, "; wind-sea bins of the swells" if a == 1 else ""))
        ehs = [_np_hs(np.asarray(s, dtype=np.float64), f, dirs) for s in exp_sw]
        order = sorted(range(len(exp_sw)), key=lambda i: -ehs[i])
        kept = order[:req]
        dropped = order[req:]
        if dropped and kept and max(ehs[i] for i in dropped) > min(ehs[i] for i in kept) * (1 + 1e-12):
            raise Violation("oracle", "internal: reference ordering inconsistent")
        # compare as ordered tie groups
        got_sw = list(out[n_wsea:])
        pos = 0
        i = 0
        exp_sorted = [exp_sw[k] for k in order] + [np.zeros_like(E)] * max(0, req - len(exp_sw))
        exp_hs = [ehs[k] for k in order] + [0.0] * max(0, req - len(exp_sw))
        while i < req:
            j = i
            tie_tol = 2e-6 if case["dtype"] == "float32" else 1e-9  # the library's Hs is evaluated in the dtype of the partitions
            while j + 1 < len(exp_hs) and abs(exp_hs[j + 1] - exp_hs[j]) <= tie_tol * max(exp_hs[i], 1e-300):
                j += 1
            group = exp_sorted[i:j + 1]
            for g in got_sw[i:min(j + 1, req)]:
                if not any(np.array_equal(g, e) for e in group):
                    raise Violation("assembly", "swell partition at position %d is not one of the basins the stated rule puts there (Hs group %r)" % (i, exp_hs[i]))
            i = j + 1
        # dropped ones are the smallest
        if req < len(exp_sw):
            kept_min = min(hs) if hs else 0.0
            for k in dropped:
                if ehs[k] > kept_min * (1 + 1e-12) + 1e-300 and req > 0:
                    raise Violation("dropped-not-smallest", "a dropped basin has Hs %r > smallest kept %r" % (ehs[k], kept_min))
    else:
        ctx.label("boundary(skip-differential)")
    ctx.nt(detected >= 2 and (wind_basin or req < detected or req > detected))
    ctx.label("method=" + method, "detected=%s" % (detected if detected < 4 else "4+"), "req-vs-det=%s" % ("<" if req < detected else "=" if req == detected else ">"),
              "kind=" + case["specs"][0]["kind"], "dtype=" + case["dtype"])
    if wind_basin:
        ctx.label("wind-sea-basin")
    ctx.show(dict(method=method, grid=[len(f), len(dirs)], kind=case["specs"][0]["kind"], detected=detected, requested=req, winds=w, agefac=case["agefac"], wscut=case["wscut"], ihmax=ih))


def check_accessor(case, ctx):
    import xarray as xr
    from wavespectra.partition import specpart

    da = gen.build_dataarray(case["fg"], case["dg"], case["specs"], case["dims"], dtype=case["dtype"])
    f, dirs = np.array(case["fg"]["f"]), np.array(case["dg"]["d"])
    lead = [d for d, _ in case["dims"]]
    shape = [n for _, n in case["dims"]]
    npos = int(np.prod(shape)) if shape else 1
    threads = case.get("threads", 0)
    if threads:
        # every time step a different spectrum (rolled along direction, rescaled), one dask chunk per step,
        # evaluated by several threads at once: the statement holds for chunked datasets however they are computed
        v = da.values.copy()
        for p in range(npos):
            v[p] = np.roll(v[p], p, axis=-1) * (1 + p % 5)
        da = da.copy(data=v)

    def field(key):
        vals = np.array([case["winds"][p % len(case["winds"])][key] for p in range(npos)], dtype=float).reshape(shape)
        return xr.DataArray(vals, coords={d: da[d] for d in lead}, dims=lead)

    method = case["method"]
    # requested count relative to the largest number of basins over the positions (without smoothing)
    det = []
    for p in range(npos):
        idx = np.unravel_index(p, shape) if shape else ()
        E = np.ascontiguousarray(da.values[idx], dtype=np.float32)
        det.append(int(np.asarray(specpart.partition(E, case["ihmax"])).max()))
    req = max(1, max(det) + case["rel"])
    kw = dict(ihmax=case["ihmax"], smooth=case["smooth"])
    src_da = da.chunk({d: 1 for d in lead}) if threads else da
    with ctx.lib("spec.partition.%s" % method):
        if method == "ptm3":
            out = src_da.spec.partition.ptm3(parts=req, **kw)
        else:
            fn = getattr(src_da.spec.partition, method)
            out = fn(field("wspd"), field("wdir"), field("dpt"), agefac=case["agefac"], wscut=case["wscut"], swells=req, **kw)
        if threads:
            import dask

            with dask.config.set(scheduler="threads", num_workers=threads):
                out = out.compute()
            ctx.label("threads=%d" % threads)
        else:
            out = out.compute()
    if out.dims[0] != "part" or list(out.part.values) != list(range(out.sizes["part"])):
        raise Violation("part-dim", "dims %s part=%s" % (out.dims, out.part.values))
    for c in ("freq", "dir"):
        if not np.array_equal(out[c].values, da[c].values):
            raise Violation("coords", "%s coordinate changed" % c)
    n_wsea = {"ptm1": 1, "ptm2": 2, "ptm3": 0}[method]
    arr = out.transpose("part", *lead, "freq", "dir").values
    nt = False
    for p in range(npos):
        idx = np.unravel_index(p, shape) if shape else ()
        E = da.values[idx]
        o = arr[(slice(None),) + tuple(idx)]
        tot, src, hs = predicates(o, E, f, dirs, lead, req + n_wsea, det[p], n_wsea, where="at %s" % (dict(zip(lead, idx)),))
        if not case["smooth"] and req >= det[p] and not np.array_equal(tot, src):
            raise Violation("conservation", "requested %d >= detected %d at %s but energy is missing" % (req, det[p], dict(zip(lead, idx))))
        if case["smooth"] and req >= int(np.prod(E.shape)) and not np.array_equal(tot, src):
            raise Violation("conservation", "requested >= number of bins but energy is missing")
        if det[p] >= 2 and req != det[p]:
            nt = True
    ctx.nt(nt)
    ctx.label("method=" + method, "ndims=%d" % len(lead), "smooth=%s" % case["smooth"], "dtype=" + case["dtype"], "dorder=" + case["dg"]["order"])
    ctx.show(dict(method=method, dims=case["dims"], grid=[len(f), len(dirs)], detected=det[:4], requested=req, smooth=case["smooth"]))


ENUM_SHAPES = [(3, 4), (4, 3), (2, 6), (6, 2)]
ENUM_BLOCK = 3**12 // 27  # 19 683 maps per block


def enum_items(shard, nshards, tier):
    """Blocks of consecutive base-3 numerals: every map over the strictly positive levels {1,2,3} on a few 12-bin shapes."""
    k = 0
    for shape in ENUM_SHAPES if tier == "thorough" else ENUM_SHAPES[:2]:
        for ih in (3, 100):
            for b in range(27):
                k += 1
                if k % nshards != shard:
                    continue
                yield dict(shape=list(shape), ihmax=ih, block=b)


def check_enum(case, ctx):
    """Exhaustive: every bin of every spectrum is held by a partition (label >= 1) - with a positive floor everywhere an
    unassigned bin is lost energy, whatever the number of partitions requested - and one map in 512 goes through np_ptm3 with
    all the predicates of the statement."""
    from wavespectra.partition import partition as P, specpart

    nf, nd = case["shape"]
    n = nf * nd
    f = np.array([0.05 * 1.2**i for i in range(nf)])
    dirs = np.array([i * 360.0 / nd for i in range(nd)])
    pw = 3 ** np.arange(n)
    start = case["block"] * ENUM_BLOCK
    many = 0
    for c in range(start, start + ENUM_BLOCK):
        E = ((c // pw) % 3 + 1).astype(np.float32).reshape(nf, nd)
        lab = np.asarray(specpart.partition(E, case["ihmax"]))
        if lab.min() < 1:
            raise Violation("unassigned-bin", "watershed map %s of the spectrum %s (ihmax=%d) leaves bin %s in no partition: its energy is in none of the partitions" % (
                lab.tolist(), E.astype(int).tolist(), case["ihmax"], np.argwhere(lab < 1)[0].tolist()))
        many += lab.max() >= 2
        if c % 512 == 0:
            det = int(lab.max())
            E64 = E.astype(np.float64)
            out = np.asarray(P.np_ptm3(E64, E64, f, dirs, parts=det, ihmax=case["ihmax"]))
            tot, src, _ = predicates(out, E64, f, dirs, None, det, det, 0)
            if not np.array_equal(tot, src):
                raise Violation("conservation", "np_ptm3(parts=%d = detected) of %s does not add up to the input" % (det, E.astype(int).tolist()))
        ctx.evals += 1
    ctx.evals -= 1
    ctx.nt(many > 0)
    ctx.extra_nt = max(0, int(many) - 1)
    ctx.show(dict(shape=case["shape"], ihmax=case["ihmax"], block=case["block"], maps=ENUM_BLOCK, with_two_or_more_partitions=int(many)))


def facets():
    e = Enumeration("positive_maps_exhaustive", enum_items, check_enum, bounds="every map over {1,2,3} on 3x4 and 4x3 (quick) plus 2x6 and 6x2 (thorough), ihmax 3 and 100: no bin left unassigned")
    e.shards = {"quick": 16, "thorough": 16}
    return [
        e,
        Facet("np", part_case(), check_np, quick=8000, thorough=120000, qshards=8),
        Facet("accessor", part_case(accessor=True), check_accessor, quick=1200, thorough=30000, qshards=6),
        Facet("accessor_threaded", part_case(accessor=True, threaded=True), check_accessor, quick=32, thorough=400, qshards=4,
              doc="64-160 distinct spectra of more than 480 bins, one dask chunk each, threaded scheduler"),
    ]


def extra_evidence(merged, tier):
    ok = merged.get("positive_maps_exhaustive", {}).get("exhaustive")
    shapes = "3x4, 4x3" if tier == "quick" else "3x4, 4x3, 2x6, 6x2"
    return dict(exhaustive_subspaces=["every map over the positive levels {1,2,3} on %s with ihmax 3 and 100: every bin assigned to a partition" % shapes] if ok else [])
