"""C06 - each spectrum in a dataset is processed independently of the others."""
import numpy as np
from hypothesis import strategies as st

from .. import gen, ops
from ..core import Facet, Violation
from .c05 import winds_of
from .c10 import _conditioning

PROP = "C06"
RULE = (
    "A case is a dataset with 1-3 non-spectral dims (time/site/lat/lon, sizes 1..4) whose neighbouring spectra are of "
    "deliberately different kinds (zero, constant, multi-modal, monotone, sparse ...) with their own wind and depth, "
    "and one catalogue operation. Facet per_position: the batched result at every position equals the result of the "
    "same call on that spectrum extracted alone. Facet perturb: replacing one spectrum leaves the results at every "
    "other position bit-identical. Facet dataset_accessor: ds.spec.op() equals ds.efth.spec.op(). Non-trivial = at "
    "least two positions whose spectra differ; distinct by canonical hash."
)
ASSUMPTIONS = [
    "hmax is excluded (its wave count is a function of the whole time axis by definition)",
    "batched vs single results compared at 1e-10 relative for float64 data and 2e-6 for float32 data (reductions and rolling windows may block differently); perturbation results compared bit for bit",
    "discrete peak choices compared only where the reference says they are well conditioned",
]


@st.composite
def indep_case(draw, names=None):
    fg = draw(gen.freq_grid(3, 9))
    dg = draw(gen.dir_grid(3, 12, spacing=("whole", "dyadic")))
    nd = draw(st.integers(1, 3))
    pool = draw(st.permutations(["time", "site"])) if nd <= 2 else None
    if nd == 3:
        dims = [["time", draw(st.integers(1, 3))], ["lat", draw(st.integers(1, 3))], ["lon", draw(st.integers(1, 3))]]
    elif draw(st.integers(0, 3)) == 0 and nd == 2:
        dims = [["lat", draw(st.integers(1, 4))], ["lon", draw(st.integers(1, 4))]]
    else:
        dims = [[d, draw(st.integers(1, 4))] for d in pool[:nd]]
    npos = int(np.prod([n for _, n in dims]))
    specs = [draw(gen.spectrum(kinds=gen.MULTI_KINDS + ("multinoisy", "multinoisy"))) for _ in range(npos)]
    if draw(st.booleans()):
        # neighbours of very different energy level (a storm next to a near-calm record): up to twelve orders of magnitude
        for s_ in specs:
            s_["amp"] = draw(st.sampled_from([1e-9, 1e-6, 1e-3, 1.0, 1e3]))
    winds = [dict(wspd=draw(st.floats(0, 35)), wdir=draw(st.floats(0, 360)), dpt=draw(st.sampled_from([2.0, 20.0, 300.0]))) for _ in range(npos)]
    op = draw(ops.op_spec(names=names, has_dir=True, nf=len(fg["f"])))
    # several operations per dataset so that every catalogue entry is met often
    more = draw(st.lists(st.sampled_from(sorted(names)), unique=True, min_size=min(8, len(names)), max_size=min(8, len(names))))
    return dict(fg=fg, dg=dg, dims=dims, specs=specs, winds=winds, op=op, more=more, dtype=draw(st.sampled_from(["float64", "float32"])),
                q=draw(st.integers(0, npos - 1)), newspec=draw(gen.spectrum(kinds=("multinoisy", "sparse", "zero"))))


def _result(op, da, aux):
    r = ops.apply(op, da, aux)
    if isinstance(r, tuple):
        return tuple(x.compute() for x in r)
    return r.compute()


def _ill(case, x, fam, name):
    if fam in ("peak", "peakdir", "peakwidth", "statsds", "dp", "dir") or name == "scale_by_hs":
        f, dirs = np.array(case["fg"]["f"]), np.array(case["dg"]["d"])
        peak_ok, dp_ok, dm_cond, dpm_cond = _conditioning(x, f, dirs, 1e-9 if case["dtype"] == "float64" else 1e-4)
        if fam in ("peak", "peakwidth", "statsds", "peakdir") or name == "scale_by_hs":
            if not peak_ok.all():
                return True
        if fam == "dp" and not dp_ok.all():
            return True
    return False


def _each_op(fn):
    def run(case, ctx):
        names = [case["op"]["op"]] + [n for n in case.get("more", []) if n != case["op"]["op"]]
        nt, sample = False, None
        for n in names:
            c = dict(case, op=dict(case["op"], op=n))
            ctx.nontrivial = False
            fn(c, ctx)
            nt = nt or ctx.nontrivial
            sample = sample or ctx.sample
            ctx.evals += 1
        ctx.nontrivial, ctx.sample = nt, sample
        ctx.evals -= 1

    return run


def check_per_position(case, ctx):
    x = gen.build_dataarray(case["fg"], case["dg"], case["specs"], case["dims"], dtype=case["dtype"])
    aux = winds_of(case, x)
    op = case["op"]
    name = op["op"]
    fam = ops.CATALOGUE[name][2]
    lead = [d for d, _ in case["dims"]]
    shape = [n for _, n in case["dims"]]
    ctx.label("op=" + name, "family=" + fam, "ndims=%d" % len(lead), "dims=" + "/".join(lead))
    if _ill(case, x, fam, name):
        ctx.label("ill-conditioned-choice(skipped)")
        return
    with ctx.lib("%s (batched)" % name):
        full = _result(op, x, aux)
    fullp = ops.parts_of(full)
    for idx in np.ndindex(*shape):
        sel = dict(zip(lead, idx))
        xs = x.isel(**sel)
        auxs = {k: v.isel(**sel) for k, v in aux.items()}
        with ctx.lib("%s (single spectrum at %s)" % (name, sel)):
            single = _result(op, xs, auxs)
        ctx.evals += 1
        singlep = ops.parts_of(single)
        if set(singlep) != set(fullp):
            raise Violation("variables", "%s: batched result has %s, single-spectrum result has %s" % (name, sorted(fullp), sorted(singlep)))
        for k in fullp:
            a = fullp[k].isel(**{d: i for d, i in sel.items() if d in fullp[k].dims})
            msg = ops.compare(a.drop_vars([d for d in lead if d in a.coords], errors="ignore"), singlep[k].drop_vars([d for d in lead if d in singlep[k].coords], errors="ignore"),
                              (1e-10 if case["dtype"] == "float64" else 2e-6) if fam not in ("peak", "peakdir", "peakwidth", "statsds") else 1e-6, fam, "%s at %s vs alone" % (name, sel), circ=(k in ("dm", "dp", "dpm") or name in ("dm", "dp", "dpm")))
            if msg and name == "ptm1_smooth":
                # the smoothed field that draws the watershed boundaries is a windowed mean whose last bit depends on the
                # array it is evaluated in; on spectra with exact ties (plateaus) that bit decides where a boundary bin goes.
                # Judge the position only if its own result is stable under a perturbation of that size.
                wob = xs.copy(data=(xs.values.astype(np.float64) * (1.0 + 2e-7 * np.cos(np.arange(xs.size)).reshape(xs.shape))).astype(xs.dtype))
                with ctx.lib("%s (conditioning probe at %s)" % (name, sel)):
                    probe = ops.parts_of(_result(op, wob, auxs))
                tie = ops.compare(singlep[k].drop_vars([d for d in lead if d in singlep[k].coords], errors="ignore"), probe[k].drop_vars([d for d in lead if d in probe[k].coords], errors="ignore"), 1e-5, fam, "probe")
                if tie:
                    ctx.label("watershed-tie-sensitive(skipped)")
                    msg = None
            if msg:
                raise Violation("cross-talk", msg)
    kinds = {s["kind"] + str(s["rs"]) for s in case["specs"]}
    ctx.nt(len(kinds) >= 2)
    ctx.show(gen.describe(case["fg"], case["dg"], case["specs"], case["dims"], op=name, dtype=case["dtype"]))


def check_perturb(case, ctx):
    x = gen.build_dataarray(case["fg"], case["dg"], case["specs"], case["dims"], dtype=case["dtype"])
    specs2 = list(case["specs"])
    specs2[case["q"]] = case["newspec"]
    y = gen.build_dataarray(case["fg"], case["dg"], specs2, case["dims"], dtype=case["dtype"])
    aux = winds_of(case, x)
    op = case["op"]
    name = op["op"]
    fam = ops.CATALOGUE[name][2]
    lead = [d for d, _ in case["dims"]]
    shape = [n for _, n in case["dims"]]
    ctx.label("op=" + name, "family=" + fam)
    with ctx.lib("%s(x)" % name):
        ra = ops.parts_of(_result(op, x, aux))
    with ctx.lib("%s(x with one spectrum replaced)" % name):
        rb = ops.parts_of(_result(op, y, aux))
    qidx = np.unravel_index(case["q"], shape)
    npos = int(np.prod(shape))
    for k in ra:
        a, b = ra[k], rb[k]
        if a.dims != b.dims or a.shape != b.shape:
            raise Violation("shape", "%s[%s]: result shape depends on the values of one spectrum: %s vs %s" % (name, k, a.shape, b.shape))
        mine = [d for d in lead if d in a.dims]
        if not mine:
            continue
        va = a.transpose(*mine, ...).values
        vb = b.transpose(*mine, ...).values
        for idx in np.ndindex(*shape):
            if idx == tuple(qidx):
                continue
            sub = tuple(i for d, i in zip(lead, idx) if d in mine)
            if not np.array_equal(va[sub], vb[sub], equal_nan=True):
                raise Violation("cross-talk", "%s[%s]: replacing the spectrum at %s changed the result at %s" % (name, k, dict(zip(lead, qidx)), dict(zip(lead, idx))))
    ctx.nt(npos >= 2)
    ctx.show(gen.describe(case["fg"], case["dg"], case["specs"], case["dims"], op=name, replaced=int(case["q"])))


DS_OPS = ["hs", "tm01", "tm02", "dm", "dspr", "tp", "dpm", "dp", "swe", "goda", "oned", "momf1", "uss", "mss", "stats_list", "smooth33", "rotate", "split_f", "interp_freq", "ptm3", "ptm5", "ptm1", "ptm4", "bbox", "celerity"]


def check_dataset(case, ctx):
    import xarray as xr

    x = gen.build_dataarray(case["fg"], case["dg"], case["specs"], case["dims"], dtype=case["dtype"])
    aux = winds_of(case, x)
    ds = x.to_dataset(name="efth")
    for k, v in aux.items():
        ds[k] = v
    op = case["op"]
    name = op["op"]

    class _DS:
        """Routes ops.apply through the Dataset accessor."""

        def __init__(self, ds):
            self._ds = ds
            self.spec = ds.spec
            self.sizes = ds.efth.sizes
            self.freq = ds.efth.freq
            self.dir = ds.efth.dir

    with ctx.lib("ds.efth.spec.%s" % name):
        ra = _result(op, ds.efth, aux)
    with ctx.lib("ds.spec.%s" % name):
        rb = _result(op, _DS(ds), aux)
    msg = ops.compare(ra, rb, 0.0, "ds", "ds.spec.%s() vs ds.efth.spec.%s()" % (name, name))
    if msg:
        raise Violation("dataset-accessor", msg)
    # the same question after the spectra (or the directions) of this very Dataset object were replaced
    if case["q"] % 2 == 0:
        ds["efth"] = ds["efth"] * 4.0
        how = "ds['efth'] replaced"
    else:
        ds["dir"] = (ds["dir"] + 90.0) % 360.0
        how = "ds['dir'] relabelled"
    with ctx.lib("ds.efth.spec.%s after %s" % (name, how)):
        ra2 = _result(op, ds.efth, aux)
    with ctx.lib("ds.spec.%s after %s" % (name, how)):
        rb2 = _result(op, _DS(ds), aux)
    msg = ops.compare(ra2, rb2, 0.0, "ds", "ds.spec.%s() vs ds.efth.spec.%s() after %s" % (name, name, how))
    if msg:
        raise Violation("dataset-accessor-stale", msg)
    ctx.nt(True)
    ctx.label("op=" + name)
    ctx.show(gen.describe(case["fg"], case["dg"], case["specs"], case["dims"], op=name))


@st.composite
def fit_case(draw):
    fg = draw(gen.freq_grid(6, 14))
    dg = draw(gen.dir_grid(3, 12, spacing=("whole",)))
    n = draw(st.integers(2, 4))
    dims = [[draw(st.sampled_from(["time", "site"])), n]]
    # records with a peak next to records without an interior peak (monotone) or without energy
    specs = [draw(gen.spectrum(kinds=("multinoisy", "bumps", "monotone", "monotone", "zero"))) for _ in range(n)]
    return dict(fg=fg, dg=dg, dims=dims, specs=specs, which=draw(st.sampled_from(["fit_jonswap", "fit_gaussian"])), dtype="float64")


def check_fits(case, ctx):
    """fit_jonswap / fit_gaussian of a dataset against the fit of each spectrum on its own: the same records are
    fitted (NaN pattern), and where both are, the parameters agree or the two fits are equally good."""
    x = gen.build_dataarray(case["fg"], case["dg"], case["specs"], case["dims"], dtype=case["dtype"])
    dim, n = case["dims"][0]
    with ctx.lib("%s (batched)" % case["which"]):
        full = getattr(x.spec, case["which"])().load()
    ef = x.spec.oned()
    for i in range(n):
        xs = x.isel({dim: [i]})
        with ctx.lib("%s (record %d on its own)" % (case["which"], i)):
            one = getattr(xs.spec, case["which"])().load()
        for k in [v for v in full.data_vars if v != "efth"]:
            a = float(np.asarray(full[k].isel({dim: i}).values).ravel()[0])
            b = float(np.asarray(one[k].values).ravel()[0])
            if np.isnan(a) != np.isnan(b):
                raise Violation("cross-talk", "%s: %s of record %d is %r within the dataset but %r for the record on its own (kinds %s)" % (case["which"], k, i, a, b, [s_["kind"] for s_ in case["specs"]]))
            if not np.isnan(a) and abs(a - b) > 1e-3 * max(abs(a), abs(b)):
                sa = float(((full["efth"].isel({dim: i}) - ef.isel({dim: i})) ** 2).sum())
                sb = float(((one["efth"].isel({dim: 0}) - ef.isel({dim: i})) ** 2).sum())
                if abs(sa - sb) > 1e-4 * max(sa, sb) + 1e-12 * float((ef.isel({dim: i}) ** 2).sum()):
                    raise Violation("cross-talk", "%s: %s of record %d is %r within the dataset, %r on its own, and the two fits are not equally good (misfit %r vs %r)" % (case["which"], k, i, a, b, sa, sb))
                ctx.label("fit-equally-good-optimum(accepted)")
        ctx.evals += 1
    ctx.evals -= 1
    kinds = {s_["kind"] for s_ in case["specs"]}
    ctx.nt(len(kinds) >= 2)
    ctx.label("fit=" + case["which"], *["kind=" + k for k in sorted(kinds)])
    ctx.show(dict(which=case["which"], kinds=[s_["kind"] for s_ in case["specs"]], grid=[len(case["fg"]["f"]), case["dg"]["n"]]))


def facets():
    allops = [n for n in ops.CATALOGUE if ops.CATALOGUE[n][2] != "timestat"]  # hmax depends on the whole time axis by definition
    return [
        Facet("per_position", indep_case(allops), _each_op(check_per_position), quick=240, thorough=6000, qshards=8),
        Facet("perturb", indep_case(allops), _each_op(check_perturb), quick=240, thorough=6000, qshards=6),
        Facet("dataset_accessor", indep_case(DS_OPS), _each_op(check_dataset), quick=100, thorough=2000, qshards=2),
        Facet("fits", fit_case(), check_fits, quick=60, thorough=1500, qshards=2),
    ]
