"""C07 - dask-backed data gives the same results under any chunking and scheduler."""
import numpy as np
from hypothesis import strategies as st

from .. import gen, ops
from ..core import Facet, Violation
from .c05 import winds_of
from .c06 import _ill

PROP = "C07"
RULE = (
    "A case is (dataset with 1-2 leading dims, chunking per dimension in {single chunk, one element per chunk, uneven "
    "split} including freq and dir, scheduler in {synchronous, threads with 1/2/4/16 workers}, operation from the "
    "catalogue plus stats / scale_by_hs / fit_jonswap / ptm1_track). Oracle: the computed dask result equals the "
    "in-memory result by label, and the call does not raise. Facet threaded_batch builds several lazy partition "
    "results on datasets of different spectral shapes and computes them in one dask.compute so that calls into the C "
    "routine's static buffers interleave at task granularity. Non-trivial = a spectral dimension is split, or more than "
    "one worker with at least two shapes in flight; distinct by canonical hash."
)
ASSUMPTIONS = [
    "thread interleavings are sampled, not enumerated (the harness does not own dask's scheduler); the C entry point holds the GIL, so interleaving happens between tasks, which the mixed-shape batches exercise; a data race inside one C call is out of reach of this technique",
    "tolerance 1e-9 relative for float64 data, 2e-4 for float32 data (chunked reductions reassociate)",
    "discrete peak choices compared only where the reference says they are well conditioned",
]

SCHED = ["synchronous", "threads1", "threads2", "threads4", "threads16"]
EXTRA_OPS = ["fit_jonswap", "ptm1_track"]


@st.composite
def chunking(draw, sizes):
    out = {}
    for d, n in sizes.items():
        mode = draw(st.sampled_from(["whole", "one", "uneven", "whole"]))
        if mode == "whole" or n == 1:
            out[d] = -1
        elif mode == "one":
            out[d] = 1
        else:
            cut = draw(st.integers(1, n - 1))
            out[d] = [cut, n - cut]
    return out


@st.composite
def dask_case(draw, names=None):
    fg = draw(gen.freq_grid(3, 9))
    dg = draw(gen.dir_grid(3, 12, spacing=("whole", "dyadic")))
    dims = [["time", draw(st.integers(2, 4))]] + ([["site", draw(st.integers(1, 3))]] if draw(st.booleans()) else [])
    npos = int(np.prod([n for _, n in dims]))
    # one record in five carries no energy (calm / land / ice points are ordinary members of model output)
    specs = [draw(gen.spectrum(kinds=("multinoisy", "multinoisy", "multinoisy", "multinoisy", "zero"))) for _ in range(min(npos, 4))]
    winds = [dict(wspd=draw(st.floats(1, 35)), wdir=draw(st.floats(0, 360)), dpt=draw(st.sampled_from([2.0, 20.0, 300.0]))) for _ in range(min(npos, 4))]
    names = names or (list(ops.CATALOGUE) + EXTRA_OPS)
    op = draw(ops.op_spec(names=[n for n in names if n in ops.CATALOGUE] or None, has_dir=True, nf=len(fg["f"])))
    more = draw(st.lists(st.sampled_from(sorted(names)), unique=True, min_size=min(5, len(names)), max_size=min(5, len(names))))
    sizes = dict(dims)
    sizes.update(freq=len(fg["f"]), dir=dg["n"])
    return dict(fg=fg, dg=dg, dims=dims, specs=specs, winds=winds, op=op, more=more, dtype=draw(st.sampled_from(["float64", "float32"])),
                chunks=draw(chunking(sizes)), sched=draw(st.sampled_from(SCHED)), perm=draw(st.one_of(st.none(), st.permutations(list(range(len(dims) + 2))))),
                auxmode=draw(st.sampled_from(["same", "same", "memory", "other"])))


def _compute(obj, sched):
    import dask

    kw = dict(scheduler="synchronous") if sched == "synchronous" else dict(scheduler="threads", num_workers=int(sched[7:]))
    if isinstance(obj, tuple):
        return tuple(dask.compute(*obj, **kw))
    return obj.compute(**kw)


def _apply(name, op, x, aux):
    if name == "fit_jonswap":
        return x.spec.fit_jonswap()
    if name == "ptm1_track":
        return x.spec.partition.ptm1_track(aux["wspd"], aux["wdir"], aux["dpt"], swells=2, ihmax=op["ihmax"])
    return ops.apply(dict(op, op=name), x, aux)


def check_dask(case, ctx):
    x = gen.build_dataarray(case["fg"], case["dg"], case["specs"], case["dims"], dtype=case["dtype"])
    aux = winds_of(case, x)
    chunks = {d: (tuple(c) if isinstance(c, list) else c) for d, c in case["chunks"].items()}
    if case.get("perm"):
        # the same data stored with another dimension order (spectral dims need not come last)
        order = [x.dims[i] for i in case["perm"]]
        tr = x.transpose(*order)
        x = tr.copy(data=np.ascontiguousarray(tr.values))
        ctx.label("dims-permuted", "freq-not-after-lead" if list(x.dims).index("freq") < len(case["dims"]) else "freq-after-lead")
    xd = x.chunk(chunks)
    auxmode = case.get("auxmode", "same")
    if auxmode == "memory":
        auxd = dict(aux)  # wind and depth held in memory next to dask-backed spectra
    elif auxmode == "other":
        # wind and depth chunked differently from the spectra along the shared dimensions
        def _other(d, n):
            c = chunks[d]
            return -1 if c == 1 else 1 if c == -1 or n < 3 else [n - 1, 1] if isinstance(c, list) and c[0] == 1 else [1, n - 1]
        auxd = {k: v.chunk({d: _other(d, v.sizes[d]) for d in v.dims}) for k, v in aux.items()}
    else:
        auxd = {k: v.chunk({d: c for d, c in chunks.items() if d in v.dims}) for k, v in aux.items()}
    ctx.label("wind-depth-chunks=" + auxmode)
    split_spec = any(chunks[d] != -1 for d in ("freq", "dir"))
    names = [case["op"]["op"]] + [n for n in case["more"] if n != case["op"]["op"]]
    ctx.label("sched=" + case["sched"], "spectral-dim-chunked" if split_spec else "spectral-dims-whole", "dtype=" + case["dtype"])
    for d in ("freq", "dir"):
        ctx.label("%s-chunks=%s" % (d, "whole" if chunks[d] == -1 else "one" if chunks[d] == 1 else "uneven"))
    rtol = 1e-9 if case["dtype"] == "float64" else 2e-4
    for name in names:
        fam = ops.CATALOGUE.get(name, (True, 3, "fit" if name == "fit_jonswap" else "track"))[2]
        if name in ops.CATALOGUE and len(case["fg"]["f"]) < ops.CATALOGUE[name][1]:
            continue
        ctx.label("op=" + name)
        if fam in ("fit",) or _ill(case, x, fam if fam != "track" else "peak", name):
            if fam != "fit":
                ctx.label("ill-conditioned-choice(skipped)")
                continue
        # in-memory result first; if the in-memory call raises, the dask call may raise the same
        try:
            ra = _apply(name, case["op"], x, aux)
            ra = tuple(r.compute() for r in ra) if isinstance(ra, tuple) else ra.compute()
            mem_err = None
        except Exception as e:  # noqa: BLE001
            mem_err = e
        try:
            rb = _apply(name, case["op"], xd, auxd)
            rb = _compute(rb, case["sched"])
            err = None
        except Exception as e:  # noqa: BLE001
            err = e
        ctx.evals += 1
        # a computation must not leave the process turning warnings into errors: every later operation that merely warns
        # (a zero-energy record is enough) would then raise, i.e. results would depend on what was computed before, and how
        import warnings as _w
        if any(f[0] == "error" for f in _w.filters):
            raise Violation("warnings-filter-leak", "after %s (scheduler %s, chunks %s) the process-wide warnings filters contain %s" % (
                name, case["sched"], case["chunks"], [f[:3] for f in _w.filters if f[0] == "error"]))
        if mem_err is not None:
            if err is None or type(err) is not type(mem_err):
                raise Violation("exception-mismatch", "%s raises %r in memory but %r on dask-backed data" % (name, mem_err, err))
            ctx.label("raises-in-memory-too")
            continue
        if err is not None:
            import traceback

            where = [fr for fr in traceback.extract_tb(err.__traceback__) if "wavespectra" in fr.filename]
            raise Violation("raised", "%s on chunks %s (scheduler %s) raised %s(%s)%s" % (
                name, case["chunks"], case["sched"], type(err).__name__, str(err)[:300], " at %s:%d" % (where[-1].filename.split("/")[-1], where[-1].lineno) if where else ""))
        tol = rtol
        if fam in ("peak", "peakdir", "peakwidth", "statsds", "dp", "track"):
            tol = max(tol, 2e-6)
        if fam in ("width", "widthf", "peakwidth"):
            tol = max(tol, 1e-6)
        if fam == "fit":
            tol = max(tol, 1e-3)
            # an iterative least-squares fit can sit on a flat valley: probe its conditioning with the same in-memory call on
            # data perturbed in the last bits (what another summation order does) and judge only parameters that do not move
            try:
                wob = x.copy(data=x.values * (1.0 + 1e-13 * np.cos(np.arange(x.size)).reshape(x.shape)))
                rp = _apply(name, case["op"], wob, aux)
                rp = tuple(r.compute() for r in rp) if isinstance(rp, tuple) else rp.compute()
                pa, pp, pb = ops.parts_of(ra), ops.parts_of(rp), ops.parts_of(rb)
                shaky = None
                for k in pa:
                    va, vp = np.asarray(pa[k].values, dtype=float), np.asarray(pp[k].transpose(*pa[k].dims).values, dtype=float)
                    bad = ~(np.abs(va - vp) <= 1e-6 * np.maximum(np.abs(va), np.abs(vp))) & ~(np.isnan(va) & np.isnan(vp))
                    bad = bad.any(axis=tuple(i for i, d in enumerate(pa[k].dims) if d in ("freq", "dir"))) if any(d in ("freq", "dir") for d in pa[k].dims) else bad
                    shaky = bad if shaky is None else (shaky | bad)
                if shaky is not None and shaky.any():
                    ctx.label("fit-ill-conditioned(masked)")
                    lead_dims = [d for d in next(iter(pa.values())).dims if d not in ("freq", "dir")]
                    import xarray as xr

                    mask = xr.DataArray(~shaky, dims=lead_dims)
                    ra = ra.where(mask) if not isinstance(ra, tuple) else tuple(r.where(mask) for r in ra)
                    rb = rb.where(mask) if not isinstance(rb, tuple) else tuple(r.where(mask) for r in rb)
            except Violation:
                raise
            except Exception:  # noqa: BLE001 - the probe is advisory
                pass
        msg = ops.compare(ra, rb, tol, fam, "%s chunks=%s sched=%s vs in-memory" % (name, case["chunks"], case["sched"]), atol_rel=(1e-7 if fam in ("width", "widthf", "peakwidth") else None))
        if fam == "fit" and msg:
            # a three-parameter fit to a handful of frequencies can fail or succeed on the last bit of its input (the covariance
            # test, an iteration limit, a parameter on its bound): such records are not judged. Well-posed = at least 6
            # frequencies, the in-memory fit exists, gamma away from its bounds [0.1, 20] and fp inside the grid
            try:
                fgrid = np.asarray(x.freq.values, dtype=float)
                g_, p_ = np.asarray(ra["gamma"].values, dtype=float), np.asarray(ra["fp"].values, dtype=float)
                well = np.isfinite(g_) & (g_ > 0.105) & (g_ < 19.0) & (p_ >= fgrid[1]) & (p_ <= fgrid[-2]) & (len(fgrid) >= 6)
                if not well.all():
                    import xarray as xr

                    mask = xr.DataArray(well, dims=ra["gamma"].dims)
                    ra, rb = ra.where(mask), rb.where(mask)
                    ctx.label("fit-ill-posed(masked)")
                    msg = ops.compare(ra, rb, tol, fam, "%s chunks=%s sched=%s vs in-memory" % (name, case["chunks"], case["sched"]))
            except Exception:  # noqa: BLE001
                pass
        if msg and fam == "fit":
            # a least-squares fit is judged by what it minimises: where the peak region is not sampled by the grid a parameter
            # (gamma) is not identifiable and any value gives the same misfit; the dask result must fit as well as the in-memory one
            try:
                ef = x.spec.oned()
                sa = ((ra["efth"].transpose(*ef.dims) - ef) ** 2).sum("freq")
                sb = ((rb["efth"].transpose(*ef.dims) - ef) ** 2).sum("freq")
                floor = 1e-12 * (ef ** 2).sum("freq")
                both_nan = np.isnan(sa.values) & np.isnan(sb.values)
                if np.all(both_nan | (sb.values <= sa.values * (1 + 1e-4) + floor.values)) and not np.any(np.isnan(sb.values) & ~np.isnan(sa.values)):
                    ctx.label("fit-equally-good-optimum(accepted)")
                    msg = None
            except Exception:  # noqa: BLE001
                pass
        if msg:
            raise Violation("dask-differs", msg)
    ctx.nt(split_spec or case["sched"] not in ("synchronous", "threads1"))
    ctx.show(dict(dims=case["dims"], grid=[len(case["fg"]["f"]), case["dg"]["n"]], chunks=case["chunks"], sched=case["sched"], ops=names))
    ctx.evals -= 1


@st.composite
def batch_case(draw, large=False):
    n = draw(st.integers(2, 5))
    members = []
    for _ in range(n):
        # large members have more than 500 bins (realistic model grids, e.g. 25 x 36) and more tasks in flight
        fg = draw(gen.freq_grid(20, 32)) if large else draw(gen.freq_grid(3, 12))
        dg = draw(gen.dir_grid(24, 36, spacing=("whole",))) if large else draw(gen.dir_grid(3, 16, spacing=("whole",)))
        nt = draw(st.integers(6, 12)) if large else draw(st.integers(1, 4))
        members.append(dict(fg=fg, dg=dg, dims=[["time", nt]], specs=[draw(gen.spectrum(kinds=("multinoisy", "multi", "sparse"))) for _ in range(min(nt, 3))],
                            method=draw(st.sampled_from(["ptm3", "ptm1", "ptm2"])), k=draw(st.integers(1, 4)), ihmax=draw(st.sampled_from([5, 100])),
                            winds=[dict(wspd=draw(st.floats(1, 35)), wdir=draw(st.floats(0, 360)), dpt=20.0)]))
    return dict(members=members, workers=draw(st.sampled_from([2, 4, 16])))


def check_batch(case, ctx):
    import dask

    lazy, eager = [], []
    shapes = set()
    for m in case["members"]:
        x = gen.build_dataarray(m["fg"], m["dg"], m["specs"], m["dims"], dtype="float64")
        aux = winds_of(m, x)
        shapes.add((len(m["fg"]["f"]), m["dg"]["n"]))

        def run(xx, aa, m=m):
            if m["method"] == "ptm3":
                return xx.spec.partition.ptm3(parts=m["k"], ihmax=m["ihmax"])
            fn = getattr(xx.spec.partition, m["method"])
            return fn(aa["wspd"], aa["wdir"], aa["dpt"], swells=m["k"], ihmax=m["ihmax"])

        with ctx.lib("in-memory %s" % m["method"]):
            eager.append(run(x, aux).compute())
        with ctx.lib("lazy %s" % m["method"]):
            lazy.append(run(x.chunk({"time": 1}), {k: v.chunk({"time": 1}) for k, v in aux.items()}))
    with ctx.lib("dask.compute(threads=%d) of %d partition graphs" % (case["workers"], len(lazy))):
        got = dask.compute(*lazy, scheduler="threads", num_workers=case["workers"])
    for i, (a, b) in enumerate(zip(eager, got)):
        msg = ops.compare(a, b, 1e-9, "watershed", "member %d (%s, grid %s) under threads=%d" % (i, case["members"][i]["method"], (len(case["members"][i]["fg"]["f"]), case["members"][i]["dg"]["n"]), case["workers"]))
        if msg:
            raise Violation("threaded-differs", msg)
    ctx.evals = len(lazy)
    ctx.nt(len(shapes) >= 2)
    ctx.label("workers=%d" % case["workers"], "shapes=%d" % len(shapes), "bins>500" if any(a * b > 500 for a, b in shapes) else "bins<=500")
    ctx.show(dict(workers=case["workers"], shapes=sorted(shapes), methods=[m["method"] for m in case["members"]]))


OPS_1D = ["hs", "hs_notail", "tm01", "tm02", "tp", "tp_discrete", "fp", "swe", "sw", "gw", "goda", "alpha", "gamma", "mss", "split_band", "stats_band", "interp_freq"]


def check_dask_1d(case, ctx):
    """Frequency spectra (no direction dimension: what oned() returns and what non-directional instruments deliver), dask-backed
    with any chunking of the remaining dimensions, against the same call in memory."""
    x2 = gen.build_dataarray(case["fg"], case["dg"], case["specs"], case["dims"], dtype=case["dtype"])
    x = x2.spec.oned().compute()
    x = x.copy(data=np.ascontiguousarray(x.values))
    f = np.asarray(x.freq.values, dtype=float)
    chunks = {d: (tuple(c) if isinstance(c, list) else c) for d, c in case["chunks"].items() if d != "dir"}
    xd = x.chunk(chunks)
    a_, b_ = case["op"].get("a", 0.3), case["op"].get("b", 0.3)
    fmin, fmax = float(f[0] + a_ * 0.4 * (f[-1] - f[0])), float(f[-1] - b_ * 0.4 * (f[-1] - f[0]))

    def run(obj, name):
        sp = obj.spec
        if name == "split_band":
            return sp.split(fmin=fmin, fmax=fmax)
        if name == "stats_band":
            return sp.stats(["hs", "tm02", "tp"], fmin=fmin, fmax=fmax)
        if name == "interp_freq":
            return sp.interp(freq=0.5 * (f[:-1] + f[1:]))
        if name == "smooth_f":
            return sp.smooth(freq_window=3, dir_window=1)
        if name == "hs_notail":
            return sp.hs(tail=False)
        if name == "tp_discrete":
            return sp.tp(smooth=False)
        return getattr(sp, name)()

    ctx.label("sched=" + case["sched"], "1D", "freq-chunks=%s" % ("whole" if chunks["freq"] == -1 else "split"))
    names = OPS_1D[case["op"].get("k", 0) % 3::3] + [OPS_1D[(case["op"].get("k", 0) * 7) % len(OPS_1D)]]
    for name in names:
        try:
            ra = run(x, name)
            ra = ra.compute()
            mem_err = None
        except Exception as e:  # noqa: BLE001
            mem_err = e
        try:
            rb = _compute(run(xd, name), case["sched"])
            err = None
        except Exception as e:  # noqa: BLE001
            err = e
        ctx.evals += 1
        ctx.label("op=" + name)
        if mem_err is not None:
            if err is None or type(err) is not type(mem_err):
                raise Violation("exception-mismatch", "%s on a frequency spectrum raises %r in memory but %r on dask-backed data" % (name, mem_err, err))
            ctx.label("raises-in-memory-too")
            continue
        if err is not None:
            raise Violation("raised", "%s on a dask-backed frequency spectrum (chunks %s, scheduler %s) raised %s(%s)" % (name, chunks, case["sched"], type(err).__name__, str(err)[:300]))
        fam = "peak" if name in ("tp", "tp_discrete", "fp", "alpha", "gamma", "stats_band") else "width" if name in ("swe", "sw", "gw") else "stat"
        if fam == "peak" and _ill(case, x2, "peak", name):
            ctx.label("ill-conditioned-choice(skipped)")
            continue
        tol = 1e-9 if case["dtype"] == "float64" else 2e-4
        msg = ops.compare(ra, rb, max(tol, 2e-6) if fam != "stat" else tol, fam, "%s (1D) chunks=%s sched=%s vs in-memory" % (name, chunks, case["sched"]), atol_rel=(1e-7 if fam == "width" else None))
        if msg:
            raise Violation("dask-differs", msg)
    ctx.nt(True)
    ctx.evals -= 1
    ctx.show(dict(dims=case["dims"], nf=len(f), chunks=chunks, sched=case["sched"], ops=names))


def facets():
    return [
        Facet("chunked", dask_case(), check_dask, quick=300, thorough=12000, qshards=10),
        Facet("chunked_1d", dask_case(["hs", "tp"]), check_dask_1d, quick=90, thorough=4000, qshards=2),
        Facet("chunked_peaks", dask_case(["tp", "tp_discrete", "fp", "dpm", "dpspr", "alpha", "gamma", "scale_by_hs", "stats_list", "stats_band", "fit_jonswap", "ptm1_track", "dp"]), check_dask, quick=120, thorough=6000, qshards=4),
        Facet("threaded_batch", batch_case(), check_batch, quick=60, thorough=3000, qshards=2),
        Facet("threaded_batch_large", batch_case(large=True), check_batch, quick=24, thorough=800, qshards=4),
    ]
