"""C10 - energy scaling, rotation symmetry, physical bounds, scale_by_hs."""
import math

import numpy as np
from hypothesis import strategies as st

from .. import gen
from ..core import Facet, Violation
from ..ref import stats as R
from .c01 import _at, _positions

PROP = "C10"
RULE = (
    "Cases are datasets (2..14 frequencies, 2..24 uniform full-circle directions in any stored order, 0-2 leading "
    "dims, float32/64) of non-degenerate spectra (energy in at least two frequencies and two directions, dynamic range "
    "<= 1e6, Hs and sqrt(k)*Hs >= 2 mm). Facet scaling: S vs k*S, k log-uniform in [1e-6,1e6]. Facet rotation: S vs S "
    "with dir relabelled (dir+a)%360, a any real (negative, >360, multiples of the bin). Facet bounds: the stated "
    "inequalities. Facet scale_by_hs: expressions c*hs, c*hs+d, hs**p with hs/tp/dpm ranges drawn between the actual "
    "values of the positions. Non-trivial = k != 1 / a not a multiple of 360 / at least one position inside and one "
    "outside the ranges; a case is counted when all its positions are non-degenerate. Distinct by canonical hash."
)
ASSUMPTIONS = [
    "alpha and gw are deliberately not asserted invariant: alpha is an energy-level coefficient (linear in k by definition) and the published gw formula mixes m0 and m0^2; both are pinned by C01/C02 instead",
    "float32 peak outputs compared at 2e-6 relative, float64 integrals at 1e-9 (2e-5 for float32 data); widths compared through their radicands",
    "directions compared on the circle; rotation tolerance includes the rounding of (dir+a)%360 itself",
]

STATS_H = ["hs", "hrms", "hmax"]
STATS_K = ["uss", "uss_x", "uss_y", "mss", "momf0", "momf2"]
STATS_INV = ["tm01", "tm02", "tp", "fp", "goda", "gamma"]
STATS_DIR = ["dm", "dp", "dpm"]
STATS_SPR = ["dspr", "dpspr"]
STATS_W = ["sw", "swe"]


@st.composite
def sym_case(draw):
    fg = draw(gen.freq_grid(2, 14))
    dg = draw(gen.dir_grid(2, 24))
    dims = draw(gen.extra_dims(maxdims=2, maxsize=3))
    npos = int(np.prod([n for _, n in dims])) if dims else 1
    kinds = ("bumps", "noisy", "plateau", "sparse", "monotone")
    specs = [draw(gen.spectrum(kinds=kinds)) for _ in range(min(npos, 3))]
    for s in specs:
        s["amp"] = draw(st.sampled_from([0.05, 1.0, 30.0]))
    return dict(fg=fg, dg=dg, dims=dims, specs=specs, dtype=draw(st.sampled_from(["float64", "float32"])),
                k=10 ** (draw(st.integers(-600, 600)) / 100.0), floor=draw(st.booleans()), a=draw(st.one_of(st.floats(-720, 720), st.integers(-5, 5).map(lambda m: m * 1.0), st.sampled_from([360.0, -360.0, 180.0, 90.0, 1e-3]))),
                amult=draw(st.integers(-40, 40)), depth=draw(st.one_of(st.none(), st.floats(1.0, 500.0))),
                mirror=draw(st.sampled_from([None, None, None, "node", "edge"])), to_north=draw(st.booleans()))


def _axis(case):
    """(axis direction, stored-index permutation of the reflection about it) for the `mirror` option, or None when the
    direction grid does not map onto itself under that reflection (partial or non-uniform grids)."""
    if not case.get("mirror"):
        return None
    d = np.array(case["dg"]["d"], dtype=float)
    if len(d) < 3:
        return None
    ds_ = np.sort(d)
    dd = float(ds_[1] - ds_[0])
    th0 = float(ds_[0]) if case["mirror"] == "node" else float(ds_[0]) - 0.5 * dd
    idx = []
    for x in d:
        m = (2.0 * th0 - x) % 360.0
        diff = np.abs((d - m + 180.0) % 360.0 - 180.0)
        j = int(np.argmin(diff))
        if diff[j] > 1e-9:
            return None
        idx.append(j)
    if sorted(idx) != list(range(len(d))):
        return None
    return th0 % 360.0, idx


def _build(case):
    """Non-degenerate by construction: dynamic range clipped to 1e6, energy present in at least two
    frequencies and two directions (a faint second bin is added where needed, or a 1e-4 floor), and
    each spectrum rescaled so that Hs and sqrt(k)*Hs stay above 2 mm (sw() masks below 1 mm by design)."""
    da = gen.build_dataarray(case["fg"], case["dg"], case["specs"], case["dims"], dtype=case["dtype"])
    f, dirs = np.array(case["fg"]["f"]), np.array(case["dg"]["d"])
    v = np.array(da.values, dtype=np.float64)
    flat = v.reshape((-1,) + v.shape[-2:])
    target = max(0.05, 0.004 / math.sqrt(min(case.get("k", 1.0), 1.0)))
    for p in range(flat.shape[0]):
        E = flat[p]
        if E.max() <= 0:
            E[:] = 0
            E[0, 0] = 1.0
        if case.get("floor"):
            E += 1e-4 * E.max()
        ax = _axis(case)
        if ax is not None:
            # a spectrum symmetric about a grid node / a cell edge: its mean direction lies exactly on that axis, which a
            # relabelling can put on the 0/360 seam
            E[:] = E + E[:, ax[1]]
        E[E < E.max() * 1e-6] = 0
        if np.sum(E.sum(axis=1) > 0) < 2:
            i = int(np.argmax(E.sum(axis=1)))
            E[(i + 1) % E.shape[0], :] = 0.3 * E[i, :]
        if np.sum(E.sum(axis=0) > 0) < 2:
            j = int(np.argmax(E.sum(axis=0)))
            E[:, (j + 1) % E.shape[1]] = 0.2 * E[:, j]
        h = R.Spec(E, f, dirs).hs()
        if h < target:
            E *= (target / h) ** 2 * 1.5
    return da.copy(data=flat.reshape(v.shape).astype(da.dtype))


def _nondegenerate(da, f, dirs, kmin=1.0):
    ok = True
    for lead, idx, E in _positions(da, True):
        ref = R.Spec(E, f, dirs)
        if int(np.sum(ref.S > 0)) < 2 or int(np.sum(E.sum(axis=0) > 0)) < 2 or ref.hs() * math.sqrt(min(1.0, kmin)) < 0.002:
            ok = False
    return ok


def _conditioning(da, f, dirs, tol):
    """Per-position masks: robust peak choice, robust dp choice, dm / dpm conditioning (reference-side)."""
    lead = [d for d in da.dims if d not in ("freq", "dir")]
    shape = tuple(da.sizes[d] for d in lead)
    peak_ok = np.zeros(shape, dtype=bool)
    dp_ok = np.zeros(shape, dtype=bool)
    dm_cond = np.full(shape, np.inf)
    dpm_cond = np.full(shape, np.inf)
    for lead_, idx, E in _positions(da, True):
        ref = R.Spec(E, f, dirs)
        S = ref.S
        n = len(S)
        top = S.max() if S.max() > 0 else 1.0
        # near-local-maxima: interior bins not clearly below a neighbour
        near = [i for i in range(1, n - 1) if S[i] >= S[i - 1] - tol * top and S[i] >= S[i + 1] - tol * top and S[i] > 0]
        strict = [i for i in range(1, n - 1) if S[i] > S[i - 1] + tol * top and S[i] > S[i + 1] + tol * top]
        if not near:
            peak_ok[idx] = True  # robustly no peak
        elif strict:
            ip = max(strict, key=lambda i: S[i])
            peak_ok[idx] = all(S[ip] > S[j] + tol * top for j in near if j != ip)
        col = E.sum(axis=0)
        o = np.sort(col)
        dp_ok[idx] = len(o) < 2 or (o[-1] - o[-2]) > tol * max(o[-1], 1e-300)
        _, dm_cond[idx] = ref.dm(weighted=False)
        pk = ref.peak_index()
        if pk:
            ms, mc, mabs = ref.momd1()
            r = math.hypot(ms[pk[0]], mc[pk[0]])
            dpm_cond[idx] = mabs[pk[0]] / r if r > 0 else np.inf
    return peak_ok, dp_ok, dm_cond, dpm_cond


def _mask(x, ok):
    """Replace positions that are not well conditioned by NaN on both sides of a comparison."""
    x = np.array(x, dtype=float, copy=True)
    x[~ok] = np.nan
    return x


def _all_stats(da, depth):
    sp = da.spec
    out = dict(
        hs=sp.hs(), hrms=sp.hrms(), hmax=sp.hmax(), uss=sp.uss(depth=depth), uss_x=sp.uss_x(depth=depth), uss_y=sp.uss_y(depth=depth), mss=sp.mss(depth=depth),
        momf0=sp.momf(0), momf2=sp.momf(2), tm01=sp.tm01(), tm02=sp.tm02(), goda=sp.goda(), dm=sp.dm(), dspr=sp.dspr(), sw=sp.sw(), swe=sp.swe(),
    )
    if da.sizes["freq"] >= 3:
        out.update(tp=sp.tp(), fp=sp.fp(), gamma=sp.gamma(), dp=sp.dp(), dpm=sp.dpm(), dpspr=sp.dpspr())
    else:
        out.update(dp=sp.dp())
    return {k: np.asarray(v.transpose(*[d for d in da.dims if d in v.dims]).values, dtype=np.float64) for k, v in out.items()}


def _rel(a, b, tol, name, what):
    a, b = np.asarray(a), np.asarray(b)
    bad = ~((np.abs(a - b) <= tol * np.maximum(np.abs(a), np.abs(b)) + 1e-300) | (np.isnan(a) & np.isnan(b)))
    if np.any(bad):
        i = np.argwhere(bad)[0]
        raise Violation(name, "%s: %r vs %r at position %s" % (what, a[tuple(i)], b[tuple(i)], i.tolist()))


def _sq(a, b, name, dtype, what):
    """Widths / spreads are square roots of differences: compare the squares, absolute tolerance = rounding of the radicand."""
    a, b = np.asarray(a, dtype=float), np.asarray(b, dtype=float)
    scale = 2.0 * R.R2D**2 if name in ("dspr", "dpspr") else 1.0
    eps = 1e-10 if dtype == "float64" else 3e-5
    if name == "dpspr" and dtype == "float64":
        eps = 1e-7  # float32 output
    sa, sb = np.nan_to_num(a, nan=0.0) ** 2, np.nan_to_num(b, nan=0.0) ** 2
    tol = scale * eps + 1e-6 * np.maximum(sa, sb)
    bad = np.abs(sa - sb) > tol
    # NaN only admissible where the radicand is within rounding of zero
    bad |= (np.isnan(a) & (sb > tol)) | (np.isnan(b) & (sa > tol))
    if np.any(bad):
        i = np.argwhere(bad)[0]
        raise Violation(name, "%s: %r vs %r at position %s" % (what, a[tuple(i)], b[tuple(i)], i.tolist()))


def _circ(a, b, tol, name, what):
    a, b = np.asarray(a), np.asarray(b)
    d = np.abs(a - b) % 360.0
    d = np.minimum(d, 360.0 - d)
    bad = ~((d <= tol) | (np.isnan(a) & np.isnan(b)))
    if np.any(bad):
        i = np.argwhere(bad)[0]
        raise Violation(name, "%s: %r vs %r at position %s" % (what, a[tuple(i)], b[tuple(i)], i.tolist()))


def check_scaling(case, ctx):
    da = _build(case)
    f, dirs = np.array(case["fg"]["f"]), np.array(case["dg"]["d"])
    k = case["k"]
    if not _nondegenerate(da, f, dirs, kmin=k):
        ctx.label("degenerate(skipped)")
        return
    db = (da.astype("float64") * k).astype(da.dtype) if case["dtype"] == "float32" else da * k
    db = db.rename("efth")
    with ctx.lib("stats(S)"):
        A = _all_stats(da, case["depth"])
    with ctx.lib("stats(k*S)"):
        B = _all_stats(db, case["depth"])
    rt = 1e-9 if case["dtype"] == "float64" else 2e-5
    peak_ok, dp_ok, dm_cond, dpm_cond = _conditioning(da, f, dirs, 1e-9 if case["dtype"] == "float64" else 1e-4)
    if not peak_ok.all():
        ctx.label("peak-choice-ill-conditioned(masked)")
    for n in ("tp", "fp", "gamma", "dpm", "dpspr"):
        if n in A:
            ok = peak_ok & ((dpm_cond < 1e4) if n == "dpm" else True)
            A[n], B[n] = _mask(A[n], ok), _mask(B[n], ok)
    A["dp"], B["dp"] = _mask(A["dp"], dp_ok), _mask(B["dp"], dp_ok)
    A["dm"], B["dm"] = _mask(A["dm"], dm_cond < 1e4), _mask(B["dm"], dm_cond < 1e4)
    # effective k per position (float32 rounding of k*S is part of the input, not of the library)
    keff = B["momf0"] / A["momf0"]
    for n in STATS_H:
        _rel(B[n], A[n] * np.sqrt(keff), 4 * rt, n, "height must scale with sqrt(k), k=%g" % k)
    for n in STATS_K:
        if n in ("uss_x", "uss_y"):
            tol = 8 * rt * np.abs(A["uss"] * keff)
            if np.any(np.abs(B[n] - A[n] * keff) > tol + 1e-300):
                raise Violation(n, "must scale with k=%g: %r vs %r" % (k, B[n].ravel()[:3], (A[n] * keff).ravel()[:3]))
        else:
            _rel(B[n], A[n] * keff, 8 * rt, n, "must scale with k=%g" % k)
    for n in STATS_INV:
        if n in A:
            _rel(B[n], A[n], max(8 * rt, 3e-6 if n in ("tp", "fp", "gamma") else 0), n, "must not change under scaling by k=%g" % k)
    for n in STATS_SPR + STATS_W:
        if n in A:
            _sq(B[n], A[n], n, case["dtype"], "must not change under scaling by k=%g" % k)
    for n in STATS_DIR:
        if n in A:
            _circ(B[n], A[n], 2e-3 if n != "dm" else 1e-5 if case["dtype"] == "float64" else 0.1, n, "direction must not change under scaling by k=%g" % k)
    ctx.nt(abs(math.log10(k)) > 1e-3)
    ctx.label("dtype=" + case["dtype"], "k=%s" % ("<1e-3" if k < 1e-3 else "<1" if k < 1 else "<1e3" if k < 1e3 else ">=1e3"))
    ctx.show(gen.describe(case["fg"], case["dg"], case["specs"], case["dims"], k=k, dtype=case["dtype"]))


def check_rotation(case, ctx):
    da = _build(case)
    f, dirs = np.array(case["fg"]["f"]), np.array(case["dg"]["d"])
    if not _nondegenerate(da, f, dirs):
        ctx.label("degenerate(skipped)")
        return
    a = case["a"]
    if case["amult"] % 3 == 0:
        a = case["amult"] * (360.0 / case["dg"]["n"])
        ctx.label("a=multiple-of-bin")
    ax = _axis(case)
    if ax is not None:
        ctx.label("mirror-symmetric-spectrum")
        if case.get("to_north"):
            a = (-ax[0]) % 360.0 + 360.0 * (case["amult"] % 3 - 1)
            ctx.label("axis-relabelled-to-north")
    newd = (dirs + a) % 360.0
    newd[newd >= 360.0] = 0.0  # the float remainder of a tiny negative number is 360.0 itself; labels stay in [0, 360)
    if len(set(newd.tolist())) != len(newd):
        ctx.label("relabel-collision(skipped)")
        return
    with ctx.lib("stats(S)"):
        A = _all_stats(da, case["depth"])
    if case["amult"] % 2:
        # relabel the very object the statistics were just taken from
        keep = da.copy(deep=True)
        da["dir"] = newd
        db, da = da, keep
        ctx.label("relabelled-in-place")
    else:
        db = da.assign_coords(dir=newd)
    with ctx.lib("stats(relabelled S)"):
        B = _all_stats(db, case["depth"])
    rt = 1e-9 if case["dtype"] == "float64" else 2e-5
    peak_ok, dp_ok, dm_cond, dpm_cond = _conditioning(da, f, dirs, 1e-9 if case["dtype"] == "float64" else 1e-4)
    if not peak_ok.all():
        ctx.label("peak-choice-ill-conditioned(masked)")
    for n in ("tp", "fp", "gamma", "dpm", "dpspr"):
        if n in A:
            ok = peak_ok & ((dpm_cond < 1e4) if n == "dpm" else True)
            A[n], B[n] = _mask(A[n], ok), _mask(B[n], ok)
    # a relabelling changes neither the data nor their order: where the contenders for the peak direction are *identical*
    # columns (mirror-symmetric spectra) the sums tie exactly in any summation order, the choice is made by position and must
    # therefore follow the labels; only near-ties of different columns are ill-conditioned
    tie = np.zeros(dp_ok.shape, dtype=bool)
    tol_ = 1e-9 if case["dtype"] == "float64" else 1e-4
    for lead_, idx, E in _positions(da, True):
        col = E.sum(axis=0)
        top = [j for j in range(len(col)) if col[j] >= col.max() * (1 - tol_)]
        tie[idx] = len(top) >= 2 and all(np.array_equal(E[:, j], E[:, top[0]]) for j in top)
    if tie.any():
        ctx.label("dp-exact-tie(judged)")
    dp_ok = dp_ok | tie
    A["dp"], B["dp"] = _mask(A["dp"], dp_ok), _mask(B["dp"], dp_ok)
    A["dm"], B["dm"] = _mask(A["dm"], dm_cond < 1e4), _mask(B["dm"], dm_cond < 1e4)
    # rounding of the relabelling itself: spacing of new labels differs from the old by ~1e-13 relative
    lab = 1e-11
    for n in STATS_H + ["mss", "momf0", "momf2", "uss"] + STATS_INV:
        if n in A:
            _rel(B[n], A[n], max(4 * rt, lab, 3e-6 if n in ("tp", "fp", "gamma") else 0), n, "must not change when directions are relabelled by %g deg" % a)
    for n in STATS_SPR + STATS_W:
        if n in A:
            _sq(B[n], A[n], n, case["dtype"], "must not change under relabelling by %g" % a)
    # directions shift by a (mod 360); conditioning of dm from the reference
    cond = float(np.max(np.where(dm_cond < 1e4, dm_cond, 1.0)))
    _circ(B["dm"], (A["dm"] + a) % 360.0, 1e-7 * cond if case["dtype"] == "float64" else 2e-3 * cond, "dm", "mean direction must shift by a=%g" % a)
    _circ(B["dp"], (A["dp"] + a) % 360.0, 1e-4, "dp", "peak direction must shift by a=%g" % a)
    if "dpm" in A:
        # dpm conditioning at the peak row can be poor: compare only where both are defined and the row is not near-isotropic
        _circ(B["dpm"], (A["dpm"] + a) % 360.0, 2e-3 if case["dtype"] == "float64" else 2e-2, "dpm", "mean direction at the peak must shift by a=%g" % a)
    for n in ("dm", "dp") + (("dpm",) if "dpm" in B else ()):
        v = B[n][~np.isnan(B[n])]
        bad = (v < 0) | (v >= 360.0)
        if n == "dp":
            # dp is one of the direction labels, returned in single precision: a label of 359.99999999999994 comes back as
            # 360.0f, which is that label to the precision of the output, not a direction outside the circle
            bad &= ~np.isin(v, np.asarray(newd, dtype=np.float32).astype(np.float64))
        if np.any(bad):
            raise Violation(n + "-range", "direction outside [0,360): %r" % v[bad][:4])
    ctx.nt(abs(a % 360.0) > 1e-9)
    ctx.label("dtype=" + case["dtype"], "a=%s" % ("neg" if a < 0 else ">360" if a > 360 else "0..360"), "dorder=" + case["dg"]["order"])
    ctx.show(gen.describe(case["fg"], case["dg"], case["specs"], case["dims"], a=a, dtype=case["dtype"]))


def check_bounds(case, ctx):
    da = _build(case)
    f, dirs = np.array(case["fg"]["f"]), np.array(case["dg"]["d"])
    if not _nondegenerate(da, f, dirs):
        ctx.label("degenerate(skipped)")
        return
    with ctx.lib("stats(S)"):
        A = _all_stats(da, case["depth"])
    fmin, fmax = f.min(), f.max()
    eps = 1e-9 if case["dtype"] == "float64" else 1e-5

    def need(ok, name, msg):
        if not np.all(ok):
            raise Violation(name, msg)

    need(A["tm02"] >= 1 / fmax * (1 - eps), "tm02>=1/fmax", "tm02=%r 1/fmax=%r" % (A["tm02"].min(), 1 / fmax))
    need(A["tm02"] <= A["tm01"] * (1 + eps), "tm02<=tm01", "tm02=%r tm01=%r" % (A["tm02"].ravel()[:3], A["tm01"].ravel()[:3]))
    need(A["tm01"] <= 1 / fmin * (1 + eps), "tm01<=1/fmin", "tm01=%r 1/fmin=%r" % (A["tm01"].max(), 1 / fmin))
    for n in ("dm", "dp", "dpm"):
        if n in A:
            v = A[n][~np.isnan(A[n])]
            need((v >= 0) & (v < 360.0), n + "-range", "%s=%r outside [0,360)" % (n, v[:4]))
    need(~np.isnan(A["dm"]), "dm-nan", "dm is NaN for a non-degenerate spectrum")
    need((A["dspr"] >= 0) & (A["dspr"] <= 81.03 + 1e-6), "dspr-range", "dspr=%r" % A["dspr"].ravel()[:4])
    need(~np.isnan(A["sw"]) & (A["sw"] >= 0), "sw-real", "sw=%r" % A["sw"].ravel()[:4])
    need(~np.isnan(A["swe"]) & (A["swe"] <= 1.0 + 1e-12) & (A["swe"] >= 0), "swe-range", "swe=%r" % A["swe"].ravel()[:4])
    if "tp" in A:
        v = A["tp"][~np.isnan(A["tp"])]
        need((v >= 1 / fmax * (1 - 1e-6)) & (v <= 1 / fmin * (1 + 1e-6)), "tp-range", "tp=%r outside [%r,%r]" % (v[:4], 1 / fmax, 1 / fmin))
        # "within the frequency range" is not met by an undefined period: where the direction-integrated spectrum has a clear
        # interior maximum (also when a boundary bin holds more energy than it), tp and dpm exist
        tol_ = 1e-9 if case["dtype"] == "float64" else 1e-4
        tpv = A["tp"].reshape(-1)
        for p_, (lead_, idx, E) in enumerate(_positions(da, True)):
            S = R.Spec(E, f, dirs).S
            top = S.max()
            clear = [i for i in range(1, len(S) - 1) if S[i] > S[i - 1] + tol_ * top and S[i] > S[i + 1] + tol_ * top]
            near = [i for i in range(1, len(S) - 1) if S[i] >= S[i - 1] - tol_ * top and S[i] >= S[i + 1] - tol_ * top and S[i] > 0]
            if clear and set(near) == set(clear) and np.isnan(tpv[p_]):
                raise Violation("tp-undefined", "tp is NaN although E(f)=%s has a clear interior maximum at f=%s" % (np.round(S, 6).tolist(), [float(f[i]) for i in clear]))
            if clear and S[[0, -1]].max() > max(S[i] for i in clear):
                ctx.label("boundary-bin-above-interior-peak")
    d32 = dirs.astype(np.float32).astype(np.float64)
    for v in A["dp"].ravel():
        if not np.any(np.abs(d32 - v) <= 1e-4) and not np.any(np.abs(dirs - v) <= 1e-4):
            raise Violation("dp-in-coords", "dp=%r is not one of the direction coordinates %s" % (v, dirs[:6]))
    ctx.nt(True)
    ctx.label("dtype=" + case["dtype"], "nf=%d" % min(len(f), 3), "nd=%d" % min(len(dirs), 3))
    ctx.show(gen.describe(case["fg"], case["dg"], case["specs"], case["dims"], dtype=case["dtype"]))


# ----------------------------------------------------------------------------- scale_by_hs

@st.composite
def sbh_case(draw):
    fg = draw(gen.freq_grid(3, 12))
    dg = draw(gen.dir_grid(2, 16))
    dims = [["time", draw(st.integers(2, 5))]] + ([["site", draw(st.integers(1, 3))]] if draw(st.booleans()) else [])
    npos = int(np.prod([n for _, n in dims]))
    kinds = ("bumps", "noisy", "sparse", "monotone")
    specs = [draw(gen.spectrum(kinds=kinds)) for _ in range(npos)]
    for s in specs:
        s["amp"] = draw(st.sampled_from([0.02, 0.3, 1.0, 5.0, 30.0]))
    form = draw(st.sampled_from(["c*hs", "c*hs+d", "hs**p", "C*HS + d"]))
    c = draw(st.floats(0.1, 3.0))
    d = draw(st.floats(0.0, 1.0))
    p = draw(st.sampled_from([0.5, 1.5, 2.0]))
    use = draw(st.lists(st.sampled_from(["hs_min", "hs_max", "tp_min", "tp_max", "dpm_min", "dpm_max"]), unique=True, min_size=0 if draw(st.integers(0, 9)) == 0 else 1, max_size=3))
    q = {u: draw(st.integers(15, 85)) / 100.0 for u in use}
    # a bound placed exactly on one of the actual values exercises the inclusive ends of the ranges
    onv = {u: draw(st.booleans()) for u in use}
    return dict(fg=fg, dg=dg, dims=dims, specs=specs, dtype=draw(st.sampled_from(["float64", "float32"])), form=form, c=round(c, 4), d=round(d, 4), p=p, q=q, onv=onv)


def _between(vals, q):
    """A threshold strictly between two adjacent distinct values (never on one), at quantile q."""
    v = np.unique(vals[~np.isnan(vals)])
    if v.size == 0:
        return 1.0
    cuts = [v[0] - 1.0] + [(a + b) / 2 for a, b in zip(v[:-1], v[1:]) if (b - a) > 1e-3 * max(abs(a), abs(b), 1e-3)] + [v[-1] + 1.0]
    return float(cuts[min(len(cuts) - 1, int(q * len(cuts)))])


def check_sbh(case, ctx):
    da = gen.build_dataarray(case["fg"], case["dg"], case["specs"], case["dims"], dtype=case["dtype"])
    f, dirs = np.array(case["fg"]["f"]), np.array(case["dg"]["d"])
    refs = []
    for lead, idx, E in _positions(da, True):
        refs.append((idx, R.Spec(E, f, dirs)))
    with ctx.lib("hs/tp/dpm"):
        hs = np.asarray(da.spec.hs().transpose(*lead).values, dtype=float)
        tp = np.asarray(da.spec.tp().transpose(*lead).values, dtype=float)
        dpm = np.asarray(da.spec.dpm().transpose(*lead).values, dtype=float)
    if np.any(hs <= 0):
        ctx.label("zero-energy(skipped)")
        return
    kw = {}
    for u, q in case["q"].items():
        vals = {"hs": hs, "tp": tp, "dpm": dpm}[u.split("_")[0]]
        if case.get("onv", {}).get(u) and np.any(~np.isnan(vals)):
            vv = np.sort(vals[~np.isnan(vals)])
            kw[u] = float(vv[min(len(vv) - 1, int(q * len(vv)))])
            ctx.label("bound-on-value")
        else:
            kw[u] = _between(vals, q)
    form, c, d, p = case["form"], case["c"], case["d"], case["p"]
    expr = {"c*hs": "%r*hs" % c, "c*hs+d": "%r*hs + %r" % (c, d), "hs**p": "hs**%r" % p, "C*HS + d": "%r*HS + %r" % (c, d)}[form]
    want_fn = {"c*hs": lambda h: c * h, "c*hs+d": lambda h: c * h + d, "hs**p": lambda h: h**p, "C*HS + d": lambda h: c * h + d}[form]
    with ctx.lib("scale_by_hs(%s, %s)" % (expr, kw)):
        out = da.spec.scale_by_hs(expr, **kw)
        out = out.compute()
        hs_out = np.asarray(out.spec.hs().transpose(*lead).values, dtype=float)
    outv = out.transpose(*da.dims).values
    inside = np.ones(hs.shape, dtype=bool)
    for u, t in kw.items():
        v = {"hs": hs, "tp": tp, "dpm": dpm}[u.split("_")[0]]
        inside &= (v >= t) if u.endswith("min") else (v <= t)
    rt = 1e-9 if case["dtype"] == "float64" else 2e-5
    for idx, ref in refs:
        if inside[idx]:
            want = want_fn(ref.hs())
            if not abs(hs_out[idx] - want) <= 4 * rt * want:
                raise Violation("scaled-hs", "position %s inside the ranges %s: Hs after scale_by_hs(%s) is %r, expression of Hs=%r gives %r" % (idx, kw, expr, hs_out[idx], ref.hs(), want))
        else:
            if not np.array_equal(outv[idx], da.values[idx]):
                raise Violation("untouched", "position %s outside the ranges %s (hs=%r tp=%r dpm=%r) was modified by scale_by_hs" % (idx, kw, hs[idx], tp[idx], dpm[idx]))
    ctx.nt(bool(inside.any() and (~inside).any()))
    ctx.label("form=" + form, "ranges=%d" % len(kw), "inside=%s" % ("all" if inside.all() else "none" if not inside.any() else "mixed"))
    ctx.show(dict(expr=expr, ranges=kw, dims=case["dims"], hs=[round(float(x), 4) for x in hs.ravel()[:6]], inside=inside.ravel().tolist()[:6]))


def facets():
    return [
        Facet("scaling", sym_case(), check_scaling, quick=150, thorough=6000, qshards=4),
        Facet("rotation", sym_case(), check_rotation, quick=150, thorough=6000, qshards=4),
        Facet("bounds", sym_case(), check_bounds, quick=120, thorough=5000, qshards=2),
        Facet("scale_by_hs", sbh_case(), check_sbh, quick=150, thorough=5000, qshards=3),
    ]
