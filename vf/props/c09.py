"""C09 - threshold, wave-age and box splits assign every bin by the stated rule."""
import math

import numpy as np
from hypothesis import strategies as st

from .. import gen
from ..core import Facet, Violation
from ..ref import stats as R
from .c05 import winds_of

PROP = "C09"
RULE = (
    "Cases: (a) PTM4 - dataset with per-position wind speed / direction / depth and age factor, including boundary "
    "constructions (agefac=1, a stored direction equal to the wind direction, wind speed set to celerity(f_i, depth) so a "
    "bin sits exactly on the <= boundary); (b) bbox - boxes built by cutting the (freq, dir) index lattice into disjoint "
    "index rectangles converted to limits between nodes (some limits omitted), and pairs of boxes that overlap and share "
    "a bin; (c) split - cutoffs on nodes and strictly between, reversed limits; (d) PTM5 - cutoffs on and off nodes; (e) "
    "stats(fmin,fmax,dmin,dmax) vs stats of the explicitly split spectrum. Oracles recompute membership bin by bin. "
    "Non-trivial = both sides of the split non-empty (for rejection cases: the boxes share a bin); distinct by canonical hash."
)
ASSUMPTIONS = [
    "the wave-age rule uses the library's own celerity() on the boundary (C01 ties it to the dispersion relation within 0.1 %); away from the boundary (more than 0.3 %) membership is decided with an independent Newton celerity",
    "box limits are generated between grid nodes so that rectangles that do not overlap share no bin; rectangles that overlap but contain no common bin are not generated (the statement leaves them open)",
    "PTM5 off-node cutoffs: the single factor is read from the output (ratio at nodes) and must be the same for every bin of a spectrum",
]


def _lead(case):
    return [d for d, _ in case["dims"]], [n for _, n in case["dims"]]


@st.composite
def base(draw, nfmin=3):
    fg = draw(gen.freq_grid(nfmin, 10))
    dg = draw(gen.dir_grid(3, 16))
    dims = draw(gen.extra_dims(maxdims=2, maxsize=3))
    npos = int(np.prod([n for _, n in dims])) if dims else 1
    specs = [draw(gen.spectrum(kinds=("multinoisy", "multi", "sparse", "constant", "zero"))) for _ in range(min(npos, 3))]
    return dict(fg=fg, dg=dg, dims=dims, specs=specs, dtype=draw(st.sampled_from(["float64", "float32"])), lived=draw(gen.lived()))


# ----------------------------------------------------------------------------- PTM4

@st.composite
def ptm4_case(draw):
    c = draw(base(2))
    npos = int(np.prod([n for _, n in c["dims"]])) if c["dims"] else 1
    c["winds"] = [dict(wspd=draw(st.floats(0, 40)), wdir=draw(st.floats(0, 360)), dpt=draw(st.sampled_from([1.0, 8.0, 40.0, 1000.0]))) for _ in range(min(npos, 3))]
    c["agefac"] = draw(st.sampled_from([0.5, 1.0, 1.7, 3.0]))
    c["boundary"] = draw(st.booleans())
    c["bi"] = draw(st.integers(0, len(c["fg"]["f"]) - 1))
    c["bj"] = draw(st.integers(0, c["dg"]["n"] - 1))
    return c


def check_ptm4(case, ctx):
    from wavespectra.core.utils import celerity
    from .c01 import _positions

    x = gen.build_dataarray(case["fg"], case["dg"], case["specs"], case["dims"], dtype=case["dtype"], lived=case.get("lived"))
    f, d = np.array(case["fg"]["f"]), np.array(case["dg"]["d"])
    winds = [dict(w) for w in case["winds"]]
    agefac = case["agefac"]
    if case["boundary"]:
        agefac = 1.0
        for w in winds:
            w["wdir"] = float(d[case["bj"]])
            w["wspd"] = float(celerity(f[case["bi"]], w["dpt"]))
    aux = winds_of(dict(case, winds=winds), x)
    with ctx.lib("ptm4"):
        out = x.spec.partition.ptm4(aux["wspd"], aux["wdir"], aux["dpt"], agefac=agefac).compute()
    if out.sizes["part"] != 2:
        raise Violation("count", "ptm4 returned %d partitions" % out.sizes["part"])
    lead, shape = _lead(case)
    o = out.sel(freq=f, dir=d).transpose("part", *lead, "freq", "dir").values
    npos = int(np.prod(shape)) if shape else 1
    both = False
    hits = 0
    for p in range(npos):
        idx = tuple(np.unravel_index(p, shape)) if shape else ()
        w = winds[p % len(winds)]
        E = x.values[idx]
        c_lib = np.asarray(celerity(f, w["dpt"]), dtype=float)
        mask = np.zeros(E.shape, dtype=bool)
        for i in range(len(f)):
            c_ref = 2 * math.pi * f[i] / R.newton_k(float(f[i]), w["dpt"])
            for j in range(len(d)):
                up = agefac * w["wspd"] * np.cos(R.D2R * (d[j] - w["wdir"]))
                if abs(c_ref - up) > 3e-3 * c_ref:
                    mask[i, j] = c_ref <= up
                else:
                    mask[i, j] = c_lib[i] <= up
                    if c_lib[i] == up:
                        hits += 1
        sea, swell = o[(0,) + idx], o[(1,) + idx]
        if not np.array_equal(sea, np.where(mask, E, 0)) or not np.array_equal(swell, np.where(mask, 0, E)):
            bad = np.argwhere((sea != np.where(mask, E, 0)) | (swell != np.where(mask, 0, E)))[0]
            i, j = bad
            raise Violation("membership", "bin (f=%r, dir=%r) at %s: celerity %r vs wind component %r -> %s, but sea=%r swell=%r input=%r" % (
                f[i], d[j], dict(zip(lead, idx)), c_lib[i], agefac * w["wspd"] * np.cos(R.D2R * (d[j] - w["wdir"])), "wind sea" if mask[i, j] else "swell", sea[i, j], swell[i, j], E[i, j]))
        if not np.array_equal(sea + swell, E):
            raise Violation("conservation", "sea + swell != input at %s" % (dict(zip(lead, idx)),))
        if np.any(sea) and np.any(swell):
            both = True
    if case["boundary"]:
        ctx.label("boundary-construction", "boundary-equality-hit" if hits else "boundary-no-exact-hit")
    ctx.nt(both)
    ctx.label("dorder=" + case["dg"]["order"], "dtype=" + case["dtype"])
    ctx.show(gen.describe(case["fg"], case["dg"], case["specs"], case["dims"], winds=winds[:2], agefac=agefac, boundary=case["boundary"]))


# ----------------------------------------------------------------------------- bbox

@st.composite
def bbox_case(draw):
    c = draw(base(3))
    nf, nd = len(c["fg"]["f"]), c["dg"]["n"]
    # cut the index lattice: frequency cut positions and direction cut positions (between nodes)
    fc = sorted(set(draw(st.lists(st.integers(1, nf - 1), min_size=0, max_size=2))))
    dc = sorted(set(draw(st.lists(st.integers(1, nd - 1), min_size=0, max_size=2))))
    lines = draw(st.booleans())
    if lines and nd > 1:
        dc = sorted(set(dc + [1]))  # a cell one direction wide at the start of the grid (direction 0 on grids that have it)
    fb = [0] + fc + [nf]
    db = [0] + dc + [nd]
    cells = [(fb[a], fb[a + 1], db[b], db[b + 1]) for a in range(len(fb) - 1) for b in range(len(db) - 1)]
    keep = draw(st.lists(st.sampled_from(cells), unique=True, min_size=1, max_size=min(4, len(cells))))
    if lines and nd > 1 and not any(k[2] == 0 and k[3] == 1 for k in keep):
        keep = [k for k in cells if k[2] == 0 and k[3] == 1][:1] + keep[:3]
    c["boxes"] = [list(k) for k in keep]
    c["omit"] = [draw(st.lists(st.sampled_from(["fmin", "fmax", "dmin", "dmax"]), unique=True, max_size=2)) for _ in keep]
    c["overlap"] = draw(st.integers(0, 4)) == 0
    c["overlap_kind"] = draw(st.sampled_from(["shift", "line", "line-f"]))
    c["lines"] = lines
    return c


def _limits(box, f, dasc, omit, lines=False):
    """Index rectangle [f0,f1) x [d0,d1) -> limits strictly between nodes (or outside the grid at the ends). With `lines`
    a box one direction wide is given as dmin == dmax == that direction (exactly 0.0 for north on a grid that has it)."""
    f0, f1, d0, d1 = box
    if lines and d1 - d0 == 1:
        return dict(fmin=float(f[f0] - 1e-4) if f0 == 0 else float(0.5 * (f[f0 - 1] + f[f0])),
                    fmax=float(f[f1 - 1] + 1e-4) if f1 == len(f) else float(0.5 * (f[f1 - 1] + f[f1])), dmin=float(dasc[d0]), dmax=float(dasc[d0]))
    lim = dict(
        fmin=float(f[f0] - 1e-4) if f0 == 0 else float(0.5 * (f[f0 - 1] + f[f0])),
        fmax=float(f[f1 - 1] + 1e-4) if f1 == len(f) else float(0.5 * (f[f1 - 1] + f[f1])),
        dmin=float(dasc[d0] - 1e-3) if d0 == 0 else float(0.5 * (dasc[d0 - 1] + dasc[d0])),
        dmax=float(dasc[d1 - 1] + 1e-3) if d1 == len(dasc) else float(0.5 * (dasc[d1 - 1] + dasc[d1])),
    )
    # a limit may only be omitted where the default (spectrum bound) selects the same bins
    if "fmin" in omit and f0 == 0:
        lim.pop("fmin")
    if "fmax" in omit and f1 == len(f):
        lim.pop("fmax")
    if "dmin" in omit and d0 == 0:
        lim.pop("dmin")
    if "dmax" in omit and d1 == len(dasc):
        lim.pop("dmax")
    if lim.get("dmin", 1.0) <= 0:
        lim["dmin"] = 0.0 if dasc[0] > 0 or d0 == 0 else lim["dmin"]
    return lim


def check_bbox(case, ctx):
    from .c01 import _positions

    x = gen.build_dataarray(case["fg"], case["dg"], case["specs"], case["dims"], dtype=case["dtype"], lived=case.get("lived"))
    f = np.array(case["fg"]["f"])
    d = np.array(case["dg"]["d"])
    dasc = np.sort(d)
    boxes = [_limits(b, f, dasc, o, lines=case.get("lines", False)) for b, o in zip(case["boxes"], case["omit"])]
    if any(b.get("dmin") == b.get("dmax") and "dmin" in b for b in boxes):
        ctx.label("line-box", "line-at-zero" if any(b.get("dmax") == 0.0 for b in boxes) else "line-elsewhere")
    if case["overlap"]:
        # second box = first box shifted by one bin in frequency: overlaps and shares a bin
        b0 = case["boxes"][0]
        if b0[1] - b0[0] >= 1:
            nb = [max(0, b0[0]), min(len(f), b0[1] + 1), b0[2], b0[3]]
            boxes2 = [dict(_limits(b0, f, dasc, [])), dict(_limits(nb, f, dasc, []))]
            kind = case.get("overlap_kind", "shift")
            if b0[3] - b0[2] < 3:
                kind = "shift"  # a line strictly inside the box needs a direction node that is not one of its outer two
            if kind == "line":
                # second box degenerate in direction (dmin == dmax on a grid direction inside the first box): it selects that
                # one direction, so the two boxes share bins
                node = float(dasc[(b0[2] + b0[3] - 1) // 2])
                boxes2[1] = dict(boxes2[0], dmin=node, dmax=node)
            elif kind == "line-f" and b0[1] - b0[0] >= 1:
                # first box degenerate in direction, second an ordinary box around it
                node = float(dasc[(b0[2] + b0[3] - 1) // 2])
                boxes2 = [dict(boxes2[0], dmin=node, dmax=node), dict(_limits(b0, f, dasc, []))]
            ctx.label("overlap-kind=" + kind)
            try:
                x.spec.partition.bbox(boxes2)
            except ValueError:
                ctx.label("overlap-rejected")
                ctx.nt(True)
                ctx.show(dict(boxes=boxes2, verdict="ValueError"))
                return
            except Exception as e:  # noqa: BLE001
                raise Violation("overlap", "overlapping boxes raised %s instead of ValueError" % type(e).__name__)
            raise Violation("overlap", "overlapping boxes %s were accepted" % boxes2)
    with ctx.lib("bbox(%s)" % boxes):
        out = x.spec.partition.bbox([dict(b) for b in boxes]).compute()
    if out.sizes["part"] != len(boxes) + 1:
        raise Violation("count", "%d boxes gave %d partitions" % (len(boxes), out.sizes["part"]))
    lead, shape = _lead(case)
    o = out.sel(freq=f, dir=d).transpose("part", *lead, "freq", "dir").values
    rest = np.ones((len(f), len(d)), dtype=bool)
    masks = []
    for b in case["boxes"]:
        m = np.zeros((len(f), len(d)), dtype=bool)
        sel_d = [j for j in range(len(d)) if dasc[b[2]] <= d[j] <= dasc[b[3] - 1]]
        m[b[0]:b[1], sel_d] = True
        masks.append(m)
        rest &= ~m
    masks.append(rest)
    both = 0
    for idx in (np.ndindex(*shape) if shape else [()]):
        E = x.values[idx]
        tot = np.zeros_like(E)
        for k, m in enumerate(masks):
            got = o[(k,) + tuple(idx)]
            if not np.array_equal(got, np.where(m, E, 0)):
                i, j = np.argwhere(got != np.where(m, E, 0))[0]
                raise Violation("membership", "partition %d (%s) bin (f=%r, dir=%r): %r, expected %r" % (k, boxes[k] if k < len(boxes) else "remainder", f[i], d[j], got[i, j], np.where(m, E, 0)[i, j]))
            tot = tot + got
            both += bool(np.any(got))
        if not np.array_equal(tot, E):
            raise Violation("conservation", "box partitions do not add up to the input")
    ctx.nt(both >= 2)
    ctx.label("boxes=%d" % len(boxes), "omitted=%d" % sum(4 - len(b) for b in boxes), "dorder=" + case["dg"]["order"], "dmin_first=%s" % ("0" if dasc[0] == 0 else ">0"))
    ctx.show(dict(grid=[len(f), len(d)], boxes=boxes, dims=case["dims"]))


# ----------------------------------------------------------------------------- split / stats

@st.composite
def split_case(draw):
    c = draw(base(3))
    nf, nd = len(c["fg"]["f"]), c["dg"]["n"]
    c["fmin"] = draw(st.one_of(st.none(), st.tuples(st.sampled_from(["node", "between"]), st.integers(0, nf - 2))))
    c["fmax"] = draw(st.one_of(st.none(), st.tuples(st.sampled_from(["node", "between"]), st.integers(1, nf - 1))))
    c["dlim"] = draw(st.one_of(st.none(), st.tuples(st.integers(0, nd - 1), st.integers(0, nd - 1))))
    c["reverse"] = draw(st.integers(0, 5)) == 0
    c["interpolate"] = draw(st.sampled_from([True, True, False]))
    return c


def _fval(spec, f, low):
    if spec is None:
        return None
    kind, i = spec
    if kind == "node":
        return float(f[i])
    j = min(i, len(f) - 2)
    # off-node cutoffs deliberately not at the midpoint (so that swapped interpolation weights show)
    return float(f[j] + 0.3 * (f[j + 1] - f[j])) if low else float(f[max(j - 1, 0)] + 0.7 * (f[max(j, 1)] - f[max(j - 1, 0)]))


def check_split(case, ctx):
    from .c01 import _positions

    x = gen.build_dataarray(case["fg"], case["dg"], case["specs"], case["dims"], dtype=case["dtype"], lived=case.get("lived"))
    f, d = np.array(case["fg"]["f"]), np.array(case["dg"]["d"])
    dasc = np.sort(d)
    fmin, fmax = _fval(case["fmin"], f, True), _fval(case["fmax"], f, False)
    dmin = dmax = None
    if case["dlim"]:
        a, b = sorted(case["dlim"])
        dmin, dmax = float(dasc[a]) - 0.01, float(dasc[b]) + 0.01
        if dmin <= 0:
            dmin = 0.001 if dasc[0] > 0.001 else None
    if case["reverse"] and fmin is not None and fmax is not None:
        lo, hi = max(fmin, fmax), min(fmin, fmax)
        try:
            x.spec.split(fmin=lo, fmax=hi)
        except ValueError:
            ctx.label("reversed-rejected")
            ctx.nt(True)
            ctx.show(dict(fmin=lo, fmax=hi, verdict="ValueError"))
            return
        except Exception as e:  # noqa: BLE001
            raise Violation("validation", "fmax <= fmin raised %s instead of ValueError" % type(e).__name__)
        raise Violation("validation", "split(fmin=%r, fmax=%r) accepted limits in the wrong order" % (lo, hi))
    if fmin is not None and fmax is not None and fmax <= fmin:
        ctx.label("empty-band(skipped)")
        return
    if fmin is not None and not (f[0] <= fmin):
        fmin = float(f[0])
    with ctx.lib("split(fmin=%r, fmax=%r, dmin=%r, dmax=%r, interpolate=%s)" % (fmin, fmax, dmin, dmax, case["interpolate"])):
        out = x.spec.split(fmin=fmin, fmax=fmax, dmin=dmin, dmax=dmax, interpolate=case["interpolate"]).compute()
    lo = f[0] if fmin is None else fmin
    hi = f[-1] if fmax is None else fmax
    nodes = [v for v in f if lo - 1e-12 <= v <= hi + 1e-12]
    want_f = list(nodes)
    if case["interpolate"]:
        if fmin is not None and (not nodes or abs(nodes[0] - fmin) > 1e-10) and f[0] < fmin < f[-1]:
            want_f = [fmin] + want_f
        if fmax is not None and (not nodes or abs(nodes[-1] - fmax) > 1e-10) and f[0] < fmax < f[-1]:
            want_f = want_f + [fmax]
    of = np.asarray(out.freq.values, dtype=float)
    if len(of) != len(want_f) or not np.allclose(of, want_f, rtol=0, atol=1e-12):
        raise Violation("freq-coords", "split kept frequencies %s, expected %s" % (of.tolist(), want_f))
    keep_d = [v for v in dasc if (dmin is None or v >= dmin) and (dmax is None or v <= dmax)] if (dmin or dmax) else None
    od = np.asarray(out.dir.values, dtype=float)
    if keep_d is not None:
        if sorted(od.tolist()) != keep_d:
            raise Violation("dir-coords", "split kept directions %s, expected %s" % (sorted(od.tolist()), keep_d))
    elif sorted(od.tolist()) != sorted(d.tolist()):
        raise Violation("dir-coords", "directions changed without a direction limit")
    out = out.transpose(*x.dims)
    rt = 1e-12 if case["dtype"] == "float64" else 2e-6
    for (lead, idx, E), (_, _, O) in zip(_positions(x, True), _positions(out, True)):
        for a, fv in enumerate(of):
            for b, dv in enumerate(od):
                j = int(np.nonzero(d == dv)[0][0])
                if np.any(np.abs(f - fv) <= 1e-12):
                    i = int(np.argmin(np.abs(f - fv)))
                    if O[a, b] != E[i, j]:
                        raise Violation("kept-bin-changed", "bin (f=%r, dir=%r) inside the band changed from %r to %r" % (fv, dv, E[i, j], O[a, b]))
                else:
                    w = float(np.interp(fv, f, E[:, j]))
                    if abs(O[a, b] - w) > rt * max(abs(w), np.abs(E[:, j]).max()) + 1e-300:
                        raise Violation("cutoff-row", "interpolated row at cutoff f=%r dir=%r: %r, linear interpolation gives %r" % (fv, dv, O[a, b], w))
    ctx.nt(len(of) < len(f) or (keep_d is not None and len(keep_d) < len(d)))
    ctx.label("fmin=%s" % (case["fmin"][0] if case["fmin"] else "-"), "fmax=%s" % (case["fmax"][0] if case["fmax"] else "-"), "dlim=%s" % bool(case["dlim"]), "interpolate=%s" % case["interpolate"], "dorder=" + case["dg"]["order"])
    ctx.show(dict(f=case["fg"]["f"], fmin=fmin, fmax=fmax, dmin=dmin, dmax=dmax, kept_f=of.tolist()))


def check_stats_limits(case, ctx):
    import xarray as xr

    x = gen.build_dataarray(case["fg"], case["dg"], case["specs"], case["dims"], dtype=case["dtype"], lived=case.get("lived"))
    f, d = np.array(case["fg"]["f"]), np.array(case["dg"]["d"])
    dasc = np.sort(d)
    fmin, fmax = _fval(case["fmin"], f, True), _fval(case["fmax"], f, False)
    if fmin is not None and fmax is not None and fmax <= fmin:
        ctx.label("empty-band(skipped)")
        return
    dmin = dmax = None
    if case["dlim"]:
        a, b = sorted(case["dlim"])
        if b - a >= 1:
            dmin, dmax = float(dasc[a]) - 0.01, float(dasc[b]) + 0.01
            if dmin <= 0:
                dmin = None
    if not any((fmin, fmax, dmin, dmax)):
        ctx.label("no-limits(skipped)")
        return
    names = ["hs", "tm01", "tm02", "dm", "dspr"]
    with ctx.lib("stats(..., limits)"):
        a = x.spec.stats(names, fmin=fmin, fmax=fmax, dmin=dmin, dmax=dmax).compute()
    with ctx.lib("split(...).spec.stats"):
        sp = x.spec.split(fmin=fmin, fmax=fmax, dmin=dmin, dmax=dmax)
        b = xr.merge([getattr(sp.spec, n)() for n in names]).compute()
    for n in names:
        va, vb = np.asarray(a[n].values, dtype=float), np.asarray(b[n].transpose(*a[n].dims).values, dtype=float)
        if not np.allclose(va, vb, rtol=1e-9, atol=0, equal_nan=True):
            raise Violation("stats-limits", "%s with limits %s differs from %s of the split spectrum: %s vs %s" % (n, dict(fmin=fmin, fmax=fmax, dmin=dmin, dmax=dmax), n, va.ravel()[:4], vb.ravel()[:4]))
    # and the band-limited Hs equals the reference integral over the kept bins (node cutoffs only)
    ctx.nt(True)
    ctx.label("limits=%s" % "".join(k[0] + k[1] for k, v in (("fn", fmin), ("fx", fmax), ("dn", dmin), ("dx", dmax)) if v is not None))
    ctx.show(dict(f=case["fg"]["f"], fmin=fmin, fmax=fmax, dmin=dmin, dmax=dmax))


# ----------------------------------------------------------------------------- PTM5

@st.composite
def ptm5_case(draw):
    c = draw(base(3))
    nf = len(c["fg"]["f"])
    c["cut"] = draw(st.tuples(st.sampled_from(["node", "between", "between"]), st.integers(0, nf - 2)))
    c["interpolate"] = draw(st.sampled_from([True, True, True, False]))
    return c


def check_ptm5(case, ctx):
    from .c01 import _positions

    x = gen.build_dataarray(case["fg"], case["dg"], case["specs"], case["dims"], dtype=case["dtype"], lived=case.get("lived"))
    f, d = np.array(case["fg"]["f"]), np.array(case["dg"]["d"])
    kind, i = case["cut"]
    fcut = float(f[max(i, 1)]) if kind == "node" else float(f[i] + 0.3 * (f[i + 1] - f[i]))
    with ctx.lib("ptm5(fcut=%r, interpolate=%s)" % (fcut, case["interpolate"])):
        out = x.spec.partition.ptm5(fcut=fcut, interpolate=case["interpolate"]).compute()
    if out.sizes["part"] != 2:
        raise Violation("count", "ptm5 returned %d partitions" % out.sizes["part"])
    of = np.asarray(out.freq.values, dtype=float)
    inserted = kind == "between" and case["interpolate"]
    want_f = sorted(set(f.tolist()) | ({fcut} if inserted else set()))
    if not np.allclose(np.sort(of), want_f, rtol=0, atol=1e-12) or len(of) != len(want_f):
        raise Violation("freq-coords", "ptm5 frequencies %s, expected %s" % (np.sort(of).tolist(), want_f))
    lead, shape = _lead(case)
    o = out.sel(dir=d).sortby("freq").transpose("part", *lead, "freq", "dir").values
    ofs = np.sort(of)
    rt = 1e-9 if case["dtype"] == "float64" else 2e-5
    both = False
    for idx in (np.ndindex(*shape) if shape else [()]):
        E = np.asarray(x.values[idx], dtype=float)
        sea, swell = o[(0,) + tuple(idx)], o[(1,) + tuple(idx)]
        if np.any(sea[ofs < fcut - 1e-12] != 0):
            raise Violation("sea-below-cutoff", "sea partition has energy below the cutoff %r" % fcut)
        if np.any(swell[ofs > fcut + 1e-12] != 0):
            raise Violation("swell-above-cutoff", "swell partition has energy above the cutoff %r" % fcut)
        # elsewhere: c * input with one c per spectrum
        ratios = []
        for a, fv in enumerate(ofs):
            node = np.nonzero(np.abs(f - fv) <= 1e-12)[0]
            src = E[node[0]] if len(node) else np.array([np.interp(fv, f, E[:, j]) for j in range(len(d))])
            for part, side in ((sea, fv >= fcut - 1e-12), (swell, fv <= fcut + 1e-12)):
                if not side:
                    continue
                for j in range(len(d)):
                    if src[j] > 0:
                        ratios.append(part[a, j] / src[j])
                    elif part[a, j] != 0:
                        raise Violation("energy-from-nothing", "bin (f=%r, dir=%r) has %r where the input has none" % (fv, d[j], part[a, j]))
        if ratios:
            r = np.array(ratios)
            if r.max() - r.min() > 8 * rt * max(abs(r.max()), 1e-300):
                raise Violation("single-factor", "partitions are not the input times one factor: ratios range %r..%r (cutoff %r %s)" % (r.min(), r.max(), fcut, kind))
            if not inserted and abs(r.mean() - 1.0) > 8 * rt:
                raise Violation("factor-on-node", "cutoff on a grid node (or no interpolation) must leave the kept bins unchanged, factor %r" % r.mean())
        # the factor is variance preserving: Hs of the spectrum on the output grid equals Hs of the input
        G = np.where((ofs >= fcut - 1e-12)[:, None], sea, swell)
        hin, hout = R.Spec(E, f, d).hs(), R.Spec(G, ofs, d).hs()
        if abs(hin - hout) > 8 * rt * max(hin, 1e-300):
            raise Violation("variance", "Hs of the input %r, Hs of sea+swell on the output grid %r (cutoff %r %s)" % (hin, hout, fcut, kind))
        if np.any(sea) and np.any(swell):
            both = True
    ctx.nt(both)
    ctx.label("cut=" + kind, "interpolate=%s" % case["interpolate"], "dorder=" + case["dg"]["order"])
    ctx.show(dict(f=case["fg"]["f"], fcut=fcut, kind=kind, interpolate=case["interpolate"]))


def facets():
    return [
        Facet("ptm4", ptm4_case(), check_ptm4, quick=500, thorough=20000, qshards=4),
        Facet("bbox", bbox_case(), check_bbox, quick=500, thorough=20000, qshards=4),
        Facet("split", split_case(), check_split, quick=500, thorough=20000, qshards=4),
        Facet("stats_limits", split_case(), check_stats_limits, quick=150, thorough=6000, qshards=3),
        Facet("ptm5", ptm5_case(), check_ptm5, quick=400, thorough=16000, qshards=4),
    ]
