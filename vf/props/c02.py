"""C02 - peak parameters are taken at the true spectral peak."""
import math

import numpy as np
from hypothesis import strategies as st

from .. import gen
from ..core import Enumeration, Facet, Violation
from ..ref import stats as R

PROP = "C02"
RULE = (
    "A case is a dataset whose direction-integrated profiles are built from small integers so that ties and plateaus "
    "are exact: classes random-levels, unimodal, multimodal (close or equal peaks), flat-topped (plateau above every "
    "strict peak), monotone up/down, peak in one of the last four bins, boundary value above the interior peak, "
    "all-zero; each profile is spread over 1..12 directions by a random integer composition per frequency and placed "
    "at a random position of a 0-2 dimensional dataset. tp (discrete and parabolic), fp, dpm, dpspr, alpha, gamma, dp "
    "are compared with a plain-loop reference peak finder. Non-trivial = at least two strict interior maxima, a tie, "
    "a plateau, a peak in the last three bins, or no interior peak at all; distinct by canonical hash. The exhaustive "
    "facet enumerates every 1D profile of length 3..7 over {0,1,2,3}."
)
ASSUMPTIONS = [
    "profiles are integers times a power of two so that direction sums are exact in float32 as well and exact ties / plateaus survive the library's own arithmetic",
    "a tie between equal largest strict peaks may be resolved to any of them (the statement does not say which)",
    "peak outputs are float32 by the library's declared output dtype: comparisons use 4e-7 relative; the parabola vertex is accepted within the hull of the float64 and float32-frequency evaluations",
    "alpha window membership is not asserted when a frequency lies within 1e-6 relative of the open window's ends 1.35 fp / 2 fp",
    "g = scipy.constants.g in Phillips' alpha; PM peak density 0.3125 Hs^2 fp^-1 * 0.2865048 and the documented polynomial for gamma",
]

F32 = 4e-7
G = 9.80665


@st.composite
def profile(draw, nf):
    cls = draw(st.sampled_from(["levels", "unimodal", "multimodal", "flat_top", "monotone", "top_bins", "boundary_high", "zero", "tie", "near_tie", "barely"]))
    L = draw(st.integers(2, 9))
    fine = []
    if cls == "levels":
        S = draw(st.lists(st.integers(0, L), min_size=nf, max_size=nf))
    elif cls == "unimodal":
        p = draw(st.integers(1, nf - 2))
        S = [max(0, 20 - 3 * abs(i - p) - draw(st.integers(0, 2))) for i in range(nf)]
        S[p] = 25
    elif cls in ("multimodal", "tie", "near_tie"):
        S = [draw(st.integers(0, 3)) for _ in range(nf)]
        k = draw(st.integers(2, 3))
        pos = sorted(set(draw(st.lists(st.integers(1, nf - 2), min_size=k, max_size=k))))
        for j, p in enumerate(pos):
            S[p] = 10 if cls in ("tie", "near_tie") else 10 + draw(st.integers(0, 2))
        if cls == "near_tie":
            # equal peaks told apart only below single-precision resolution (float64 data): relative steps of 2^-30
            fine = [[p, draw(st.integers(-3, 3))] for p in pos]
    elif cls == "barely":
        # a strict interior maximum that exceeds an equal neighbour by 2^-30 relative (float64 data)
        S = [draw(st.integers(0, 2)) for _ in range(nf)]
        p = draw(st.integers(1, nf - 2))
        S[p] = 12
        side = draw(st.sampled_from([-1, 1, 0]))
        for q in ([p - 1, p + 1] if side == 0 else [p + side]):
            S[q] = 12
        fine = [[p, draw(st.integers(1, 3))]]
    elif cls == "flat_top":
        S = [draw(st.integers(0, 2)) for _ in range(nf)]
        if nf >= 5:
            a = draw(st.integers(1, nf - 3))
            S[a] = S[a + 1] = 12
            p = draw(st.integers(1, nf - 2))
            if p not in (a - 1, a, a + 1, a + 2):
                S[p] = 7
        else:
            S[1:-1] = [12] * (nf - 2)
    elif cls == "monotone":
        S = list(range(1, nf + 1))
        if draw(st.booleans()):
            S = S[::-1]
    elif cls == "top_bins":
        S = [draw(st.integers(0, 2)) for _ in range(nf)]
        back = draw(st.integers(2, min(5, nf - 1)))
        S[nf - back] = 15
    elif cls == "boundary_high":
        S = [draw(st.integers(0, 2)) for _ in range(nf)]
        S[draw(st.integers(1, nf - 2))] = 9
        S[draw(st.sampled_from([0, nf - 1]))] = 30
    else:
        S = [0] * nf
    return dict(cls=cls, S=[int(x) for x in S], rs=draw(st.integers(0, 2**31 - 1)), amp=draw(st.sampled_from([2.0**-10, 0.125, 1.0, 8.0])), fine=fine)


@st.composite
def peak_case(draw):
    fg = draw(gen.freq_grid(3, 14))
    nf = len(fg["f"])
    oned = draw(st.integers(0, 7)) == 0
    dg = None if oned else draw(gen.dir_grid(1, 12))
    dims = draw(gen.extra_dims(maxdims=2, maxsize=3))
    npos = int(np.prod([n for _, n in dims])) if dims else 1
    profs = [draw(profile(nf)) for _ in range(min(npos, 4))]
    return dict(fg=fg, dg=dg, dims=dims, profiles=profs, dtype=draw(st.sampled_from(["float64", "float32"])), lived=draw(gen.lived()), perm=draw(gen.perms()))


def build_profile(p, nf, nd, fine=False):
    """Integer matrix E[f, d] whose row sums are exactly M*S[f] (M = nd keeps compositions non-trivial). With `fine`
    (float64 data only) listed rows are multiplied by 1 + k 2^-30: exact in double precision, invisible in single."""
    rs = np.random.RandomState(p["rs"] % (2**31 - 1))
    E = np.zeros((nf, nd))
    for i, s in enumerate(p["S"]):
        tot = int(s) * 4
        if nd == 1:
            E[i, 0] = tot
        elif tot > 0:
            pv = rs.dirichlet(np.ones(nd) * 0.7)
            E[i] = rs.multinomial(tot, pv)
    if fine:
        for i, k in p.get("fine") or []:
            E[i] = E[i] * (1.0 + k * 2.0**-30)
    return E * p["amp"]


def build(case):
    import pandas as pd  # noqa: F401
    import xarray as xr

    fg, dg, dims = case["fg"], case["dg"], case["dims"]
    f = np.array(fg["f"])
    nf = f.size
    nd = dg["n"] if dg is not None else 1
    shape = [n for _, n in dims]
    npos = int(np.prod(shape)) if shape else 1
    arr = np.zeros((npos, nf, nd), dtype=case["dtype"])
    for p in range(npos):
        arr[p] = build_profile(case["profiles"][p % len(case["profiles"])], nf, nd, fine=case["dtype"] == "float64")
    if len(case["profiles"]) > npos:
        raise ValueError("more profiles than positions")
    template = gen.build_dataarray(fg, dg, [dict(kind="zero", rs=0, amp=1.0)], dims, dtype=case["dtype"])
    data = arr.reshape(shape + ([nf, nd] if dg is not None else [nf]))
    out = template.copy(data=data)
    if case.get("perm") is not None and out.ndim > 1:
        order = [out.dims[i] for i in np.random.RandomState(case["perm"]).permutation(out.ndim)]
        tr = out.transpose(*order)
        out = tr.copy(data=np.ascontiguousarray(tr.values))
    if case.get("lived") is not None:
        gen.live_a_life(out, case["lived"])
    return out


def _f32close(lib, ref, tol=F32):
    if math.isnan(ref):
        return math.isnan(lib)
    if math.isnan(lib):
        return False
    return abs(lib - ref) <= tol * max(abs(ref), abs(lib)) + 1e-300


def _ang(lib, ref, tol):
    if math.isnan(ref):
        return math.isnan(lib)
    if math.isnan(lib):
        return False
    d = abs(lib - ref) % 360.0
    return min(d, 360 - d) <= tol


def vertex(f1, f2, f3, e1, e2, e3):
    """Abscissa of the vertex of the Lagrange parabola through three points (float64)."""
    den = (f1 - f2) * (f1 - f3) * (f2 - f3)
    A = (f3 * (e2 - e1) + f2 * (e1 - e3) + f1 * (e3 - e2)) / den
    B = (f3 * f3 * (e1 - e2) + f2 * f2 * (e3 - e1) + f1 * f1 * (e2 - e3)) / den
    return -B / (2 * A)


def check_peaks(case, ctx):
    from .c01 import _at, _positions

    da = build(case)
    fg, dg = case["fg"], case["dg"]
    has_dir = dg is not None
    f = np.array(fg["f"])
    f32 = f.astype(np.float32).astype(np.float64)
    dirs = np.array(dg["d"]) if has_dir else None
    sp = da.spec
    lib = {}
    calls = {"tp": lambda: sp.tp(smooth=False), "tps": lambda: sp.tp(), "fp": lambda: sp.fp(smooth=False), "fps": lambda: sp.fp(),
             "alpha": lambda: sp.alpha(), "alpha_d": lambda: sp.alpha(smooth=False), "gamma": lambda: sp.gamma(), "gamma_raw": lambda: sp.gamma(scaled=False)}
    if has_dir:
        calls.update({"dpm": lambda: sp.dpm(), "dpspr": lambda: sp.dpspr(), "dp": lambda: sp.dp()})
    for name, fn in calls.items():
        with ctx.lib("spec." + name):
            lib[name] = fn()
    for p in case["profiles"]:
        ctx.label("class=" + p["cls"])
    ctx.label("dtype=" + case["dtype"], "1D" if not has_dir else "nd=%s" % (dg["n"] if dg["n"] < 3 else "3+"))
    nt = False
    ctx.nt_positions = 0
    for lead, idx, E in _positions(da, has_dir):
        ref = R.Spec(E, f, dirs)
        S = ref.S
        peaks = ref.peak_index()
        strict = [i for i in range(1, len(f) - 1) if S[i - 1] < S[i] > S[i + 1]]
        plateau = any(S[i] == S[i + 1] and S[i] > 0 and S[i] >= max(S) for i in range(len(f) - 1))
        if len(strict) >= 2 or len(peaks) >= 2 or plateau or not peaks or (peaks and peaks[0] >= len(f) - 4):
            nt = True
            ctx.nt_positions += 1
        if not peaks:
            ctx.label("no-interior-peak")
        if len(peaks) >= 2:
            ctx.label("tie")
        if peaks and peaks[0] >= len(f) - 4:
            ctx.label("peak-in-top-bins")
        where = dict(zip(lead, idx))

        def val(name):
            return float(_at(lib[name], lead, idx))

        if not peaks:
            for name in ("tp", "tps", "fp", "fps") + (("dpm", "dpspr") if has_dir else ()):
                if not math.isnan(val(name)):
                    raise Violation(name + "-not-nan", "no interior local maximum in E(f)=%s but %s=%r at %s" % (S.tolist(), name, val(name), where))
        else:
            # the library's choice among tied peaks, recovered from the discrete period
            tpv = val("tp")
            cands = [i for i in peaks if _f32close(tpv, 1.0 / f32[i]) or _f32close(tpv, 1.0 / f[i])]
            if not cands:
                raise Violation("tp", "discrete tp=%r; largest strict interior maxima of E(f)=%s are at f=%s (tp %s) at %s" % (
                    tpv, S.tolist(), [f[i] for i in peaks], [1 / f[i] for i in peaks], where))
            ip = cands[0]
            if not (_f32close(val("fp"), f[ip]) or _f32close(val("fp"), f32[ip])):
                raise Violation("fp", "fp(smooth=False)=%r, peak frequency %r" % (val("fp"), f[ip]))
            if min(S[ip] - S[ip - 1], S[ip] - S[ip + 1]) < 1e-6 * S[ip]:
                # the parabola through a peak this flat is ill-conditioned: only the discrete choice is judged
                ctx.label("barely-standing-peak(discrete only)")
                continue
            v64 = vertex(f[ip - 1], f[ip], f[ip + 1], S[ip - 1], S[ip], S[ip + 1])
            v32 = vertex(f32[ip - 1], f32[ip], f32[ip + 1], S[ip - 1], S[ip], S[ip + 1])
            lo, hi = min(1 / v64, 1 / v32), max(1 / v64, 1 / v32)
            tps = val("tps")
            if math.isnan(tps) or not (lo * (1 - 2e-6) <= tps <= hi * (1 + 2e-6)):
                raise Violation("tps", "smooth tp=%r, parabola vertex gives %r (float32 freqs: %r) at %s, E(f)=%s" % (tps, 1 / v64, 1 / v32, where, S.tolist()))
            if not (1.0 / f[ip + 1] < tps < 1.0 / f[ip - 1]):
                raise Violation("tps-interval", "smooth tp=%r not strictly inside (%r, %r)" % (tps, 1 / f[ip + 1], 1 / f[ip - 1]))
            if not _f32close(val("fps"), 1.0 / tps, 1e-6):
                raise Violation("fps", "fp()=%r but 1/tp()=%r" % (val("fps"), 1.0 / tps))
            if has_dir:
                ms, mc, mabs = ref.momd1()
                r = math.hypot(ms[ip], mc[ip])
                if r > 0 and mabs[ip] / r < 1e5:
                    want = (270.0 - R.R2D * math.atan2(ms[ip], mc[ip])) % 360.0
                    if not _ang(val("dpm"), want, 1e-4 + R.R2D * 1e-6 * mabs[ip] / r):
                        raise Violation("dpm", "dpm=%r, mean direction of the peak row (f=%r) is %r at %s" % (val("dpm"), f[ip], want, where))
                e = S[ip]
                rad = 1.0 - math.hypot(ms[ip], mc[ip]) / e
                rt = 1e-9 if case["dtype"] == "float64" else 3e-6
                lv = val("dpspr")
                want = 2.0 * R.R2D**2 * rad
                tol = 2.0 * R.R2D**2 * 8 * rt
                if rad > 8 * rt:
                    if math.isnan(lv) or abs(lv * lv - want) > tol + 1e-6 * want:
                        raise Violation("dpspr", "dpspr=%r, spread of the peak row is %r at %s" % (lv, math.sqrt(want), where))
                elif not (math.isnan(lv) or lv * lv <= want + 2 * tol):
                    raise Violation("dpspr", "dpspr=%r but peak row is unidirectional (radicand %r)" % (lv, want))
            # alpha at the same peak (smooth fp and discrete fp)
            for name, fpk in (("alpha", 1.0 / tps), ("alpha_d", 1.0 / float(np.float32(1.0 / np.float32(f32[ip]))))):
                fpk32 = float(np.float32(fpk))
                ratios = f32 / fpk32
                if np.any(np.abs(ratios - 1.35) < 1e-5) or np.any(np.abs(ratios - 2.0) < 1e-5):
                    ctx.label("alpha-window-edge(skipped)")
                    continue
                pos = [i for i in range(len(f)) if 1.35 * fpk32 < f32[i] < 2.0 * fpk32]
                if len(pos) == 0:
                    pos = [len(f) - 2, len(f) - 1]
                    ctx.label("alpha-window=0")
                elif len(pos) == 1:
                    pos = [pos[0] - 1, pos[0]] if pos[0] == len(f) - 1 else [pos[0], pos[0] + 1]
                    ctx.label("alpha-window=1")
                else:
                    ctx.label("alpha-window=many")
                n = pos[-1] - pos[0] + 1
                with np.errstate(over="ignore"):
                    want = float((2 * math.pi) ** 4 / G**2 / n * sum(S[i] * f32[i] ** 5 * np.exp(np.float64(1.25 * (fpk32 / f32[i]) ** 4)) for i in pos))
                if not math.isfinite(want) or want > 1e30:
                    ctx.label("alpha-overflow(skipped)")
                    continue
                if not _f32close(val(name), want, 2e-5):
                    raise Violation(name, "%s=%r, tail fit around fp=%r over bins %s gives %r at %s" % (name, val(name), fpk, pos, want, where))
            # gamma at the same peak
            hs = ref.hs()
            fps = 1.0 / tps
            epm = 0.3125 * hs**2 * fps**4 * fps**-5 * 0.2865048
            graw = S[ip] / epm
            poly = [0.0378375, -0.13543292, 0.64087366, 0.32524949, 0.12974958]
            gsc = sum(c * graw**k for k, c in enumerate(poly[::-1]))
            for name, want in (("gamma_raw", max(graw, 1.0)), ("gamma", max(gsc, 1.0))):
                if not _f32close(val(name), want, 2e-5):
                    raise Violation(name, "%s=%r, peak density E(fp)=%r over PM(fp)=%r gives %r at %s; E(f)=%s" % (name, val(name), S[ip], epm, want, where, S.tolist()))
        if has_dir:
            col = E.sum(axis=0)
            best = np.nonzero(col >= col.max() * (1 - 1e-13))[0]
            dpv = val("dp")
            if not any(_f32close(dpv, float(np.float32(dirs[j])), 1e-7) for j in best):
                raise Violation("dp", "dp=%r, frequency-summed spectrum is largest at directions %s at %s" % (dpv, [dirs[j] for j in best], where))
    ctx.nt(nt)
    ctx.show(dict(f=fg["f"][:8], nd=dg["n"] if has_dir else None, dims=case["dims"], dtype=case["dtype"],
                  profiles=[dict(cls=p["cls"], S=p["S"]) for p in case["profiles"]][:3]))


BATCH = 256


def enum_items(shard, nshards, tier):
    """Batches of consecutive profiles (base-4 numerals of length n), one dataset per batch."""
    maxn = 6 if tier == "quick" else 7
    k = 0
    for n in range(3, maxn + 1):
        for start in range(0, 4**n, BATCH):
            k += 1
            if k % nshards != shard:
                continue
            yield dict(n=n, start=start, count=min(BATCH, 4**n - start))


def check_enum(case, ctx):
    n = case["n"]
    profs = []
    for c in range(case["start"], case["start"] + case["count"]):
        S, r = [], c
        for _ in range(n):
            S.append(r % 4)
            r //= 4
        profs.append(dict(cls="enum", S=S, rs=0, amp=0.25))
    fg = dict(kind="log", tail="above", f=[round(0.05 * 1.21**i, 6) for i in range(n)])
    c = dict(fg=fg, dg=None, dims=[["site", len(profs)]], profiles=profs, dtype="float64")
    check_peaks(c, ctx)
    ctx.labels = ["profiles-per-batch=%d" % len(profs)]
    ctx.evals = len(profs)
    ctx.extra_nt = max(0, ctx.nt_positions - 1)  # each profile of the batch is a distinct case by construction
    ctx.sample = dict(n=n, first=profs[0]["S"], last=profs[-1]["S"], count=len(profs))


def facets():
    e = Enumeration("profiles_exhaustive", enum_items, check_enum, bounds="all 1D profiles of length 3..6 (quick) / 3..7 (thorough) over {0,1,2,3}")
    e.shards = {"quick": 8, "thorough": 16}
    return [
        Facet("peaks", peak_case(), check_peaks, quick=200, thorough=24000, qshards=5),
        e,
    ]


def extra_evidence(merged, tier):
    ok = merged.get("profiles_exhaustive", {}).get("exhaustive")
    return dict(exhaustive_subspaces=["every 1D profile of length 3..%d over {0,1,2,3} (one log grid)" % (6 if tier == "quick" else 7)] if ok else [])
