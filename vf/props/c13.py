"""C13 - instrument file readers return what the file says; 2D consistent with 1D."""
import datetime as dt
import math
import os
import shutil

import numpy as np
from hypothesis import strategies as st

from .. import env
from ..core import Enumeration, Facet, Violation
from ..enc import instruments as I

PROP = "C13"
RULE = (
    "A case is random contents (record count, times in shuffled order, frequency and direction grids, values rounded to the "
    "format's print precision, header variants) written by an independent reference encoder and read by the library: "
    "TRIAXYS DIRSPEC / NONDIRSPEC (several files), NDBC ASCII realtime and history (1 or 5 component files, with or "
    "without the minutes column, gz), Spotter CSV and JSON, Datawell SPT (time stamp in the file name, several files), "
    "Obscape CSV, WW3 station output (one location), SWAN ASCII variants (NODATA / ZERO / FACTOR blocks, J/m2 vs m2 "
    "units, CDIR vs NDIR, LONLAT vs LOCATIONS, AFREQ vs RFREQ, with and without TIME, gz) and XWaves MAT. Oracle: the "
    "reader returns exactly the encoded times (sorted), frequencies, directions, positions and densities after the "
    "documented unit conversion; for readers that build a directional spectrum from E(f) and directional moments, the "
    "direction integral equals the file's E(f) for every record and the 1D request returns E(f) unchanged. A sample "
    "facet re-encodes the vendor samples' own content and requires identical reader output. Non-trivial = at least two "
    "records out of time order, or at least two files, or a non-default header variant; distinct by canonical hash."
)
ASSUMPTIONS = [
    "a reader is judged only on files its docstring claims to read; encoders are written from the format descriptions and the vendor samples and are validated against those samples by the sample facet",
    "NDBC's 999.0 missing marker is emitted only in direction / r files at frequencies whose density is 0 (as in the vendor sample)",
    "directional reconstruction is checked through its direction integral (spacing dividing 360, spread <= 81 deg), as the property states; the shape of the NDBC history reconstruction (r1, r2 stored in hundredths) is not asserted",
    "TRIAXYS files are passed in file-name order equal to time order (the reader documents the first file as its reference and keeps file order)",
]


def _rs(case):
    return np.random.RandomState(case["rs"] % (2**31 - 1))


def _work():
    w = os.path.join(env.workdir(), "c13")
    shutil.rmtree(w, ignore_errors=True)
    os.makedirs(w, exist_ok=True)
    return w


def _times(case, n, step_min=60, start=(2021, 3, 1, 0, 0, 0), jitter=True):
    t0 = dt.datetime(*start)
    if jitter:  # any minute of the hour, any day of the year (whole minutes: the coarsest resolution among the formats)
        r = np.random.RandomState((case["rs"] + 7) % (2**31 - 1))
        t0 = t0 + dt.timedelta(minutes=int(r.randint(0, 60)), days=int(r.randint(0, 300)))
    ts = [t0 + dt.timedelta(minutes=step_min * k) for k in range(n)]
    order = list(np.argsort(_rs(case).rand(n))) if case.get("shuffle") else list(range(n))
    return ts, order


def _same(a, b, what, rtol=1e-12, atol=0.0):
    a, b = np.asarray(a, dtype=float), np.asarray(b, dtype=float)
    if a.shape != b.shape:
        raise Violation(what, "shape %s, file holds %s" % (a.shape, b.shape))
    if not np.allclose(a, b, rtol=rtol, atol=atol, equal_nan=True):
        i = tuple(np.argwhere(~np.isclose(a, b, rtol=rtol, atol=atol, equal_nan=True))[0])
        raise Violation(what, "reader returns %r, the file says %r at %s" % (a[i], b[i], list(i)))


def _same_times(got, want, what):
    g = np.asarray(got).astype("datetime64[s]")
    w = np.array(sorted(want), dtype="datetime64[s]")
    if g.shape != w.shape or not np.array_equal(g, w):
        raise Violation(what + "-times", "reader returns times %s, the file holds (sorted) %s" % (g[:5], w[:5]))


base = st.fixed_dictionaries(dict(rs=st.integers(0, 2**31 - 1), n=st.integers(1, 5), shuffle=st.booleans(), variant=st.integers(0, 7), nf=st.integers(2, 12), opt=st.integers(0, 5)))


# ----------------------------------------------------------------------------- TRIAXYS

def check_triaxys(case, ctx):
    from wavespectra import read_triaxys

    rs = _rs(case)
    w = _work()
    try:
        nf = case["nf"]
        f0, df = [(0.0, 0.01), (0.0, 0.005), (0.03, 0.005), (0.05, 0.0125 if False else 0.02)][case["variant"] % 4]
        ddir = [3, 5, 10, 30][case["variant"] // 2 % 4]
        nd = 360 // ddir + 1
        directional = case["variant"] % 3 != 0
        times, _ = _times(case, case["n"])
        paths, truth = [], []
        # later files may sit on another frequency grid with the same number of bins (documented: the first file's grid is
        # the reference, spectra of the other files are interpolated onto it; linear in frequency, zero outside their range)
        vary = ["same", "shift", "stretch"][case["rs"] % 3] if len(times) >= 2 else "same"
        fref = f0 + df * np.arange(nf)
        for k, t in enumerate(times):
            p = os.path.join(w, "%04d.%s" % (k, "DIRSPEC" if directional else "NONDIRSPEC"))
            f0k = round(f0 + 0.002 * k, 3) if vary == "shift" else f0
            dfk = round(df + 0.001, 3) if (vary == "stretch" and k >= 1) else df
            if directional:
                E = np.array([[float("%.5E" % v) for v in row] for row in rs.rand(nf, nd) * 10 ** rs.randint(-4, 1)])
                E[:, -1] = E[:, 0]
                I.triaxys_dirspec(p, t, f0k, dfk, E, ddir, header_variant=case["variant"] % 2)
            else:
                E = np.array([float("%.7E" % v) for v in rs.rand(nf) * 10])
                I.triaxys_nondirspec(p, t, f0k, dfk, E)
            paths.append(p)
            if (f0k, dfk) != (f0, df):
                fk = f0k + dfk * np.arange(nf)
                Ek = np.zeros_like(E)
                for i, x in enumerate(fref):
                    if fk[0] <= x <= fk[-1]:
                        j = min(int(np.searchsorted(fk, x, side="right")) - 1, nf - 2)
                        wgt = (x - fk[j]) / (fk[j + 1] - fk[j])
                        Ek[i] = (1.0 - wgt) * E[j] + wgt * E[j + 1]
                E = Ek
            truth.append(E)
        # documented reader options: toff (hours subtracted from the file's local time), magnetic_variation (added to the
        # directions; regrid_dir=False keeps the shifted labels and the file's values)
        opt = case.get("opt", 0)
        toff = [0, 0, 10, -3.5, 0, 12][opt]
        mv = [None, None, None, None, 22.0, -7.5][opt] if directional else None
        kw = {}
        if toff:
            kw["toff"] = toff
        if mv is not None:
            kw.update(magnetic_variation=mv, regrid_dir=False)
        with ctx.lib("read_triaxys(%d files, %s)" % (len(paths), kw)):
            ds = read_triaxys(paths if case["variant"] % 2 else os.path.join(w, "*SPEC"), **kw)
        _same_times(ds.time.values, [t - dt.timedelta(hours=toff) for t in times], "triaxys")
        _same(ds.freq.values, f0 + df * np.arange(nf), "triaxys-freq", rtol=1e-12, atol=1e-12)
        if directional:
            _same(ds.dir.values, np.arange(nd) * float(ddir) + (mv or 0.0), "triaxys-dir")
            _same(ds.efth.transpose("time", "freq", "dir").values, np.array(truth), "triaxys-values", rtol=1e-9 if vary != "same" else 1e-12, atol=1e-12 * float(np.max(truth)) if vary != "same" else 0.0)
        else:
            if "dir" in ds.efth.dims:
                raise Violation("triaxys-1d", "non-directional file returned a dir dimension")
            _same(ds.efth.transpose("time", "freq").values, np.array(truth), "triaxys-values", rtol=1e-9 if vary != "same" else 1e-12, atol=1e-12 * float(np.max(truth)) if vary != "same" else 0.0)
    finally:
        shutil.rmtree(w, ignore_errors=True)
    ctx.nt(len(paths) >= 2 or case["variant"] % 2 == 1)
    ctx.label("triaxys-%s" % ("dir" if directional else "nondir"), "files=%d" % len(paths), "f0=%g,df=%g" % (f0, df), "toff" if toff else "no-toff", "magvar" if mv is not None else "no-magvar", "grids=" + vary)
    ctx.show(dict(format="triaxys", directional=directional, files=len(paths), nf=nf, f0=f0, df=df, ddir=ddir))


# ----------------------------------------------------------------------------- NDBC ASCII

def check_ndbc(case, ctx):
    from wavespectra import read_ndbc_ascii

    rs = _rs(case)
    w = _work()
    try:
        nf, n = case["nf"], case["n"]
        freqs = np.round(0.02 + 0.0125 * np.arange(nf) + (0.0005 if case["variant"] % 2 else 0), 4)
        realtime = case["variant"] % 2 == 0
        five = case["variant"] // 2 % 2 == 0
        minutes = realtime or case["variant"] // 4 % 2 == 0
        gz = (not realtime) and case["variant"] % 3 == 0
        times, order = _times(case, n, 60, (2019, 2, 6, 0, 0, 0), jitter=minutes)
        if realtime or not minutes:
            freqs = np.round(freqs, 3)  # both print three decimals
        spec = np.round(rs.rand(n, nf) * 8, 3 if realtime else 2)
        spec[:, 0] = 0.0
        a1 = np.round(rs.rand(n, nf) * 359, 0 if not realtime else 1)
        a2 = np.round(rs.rand(n, nf) * 359, 0 if not realtime else 1)
        r1 = np.round(rs.rand(n, nf) * 0.9, 2)
        r2 = np.round(rs.rand(n, nf) * 0.5, 2)
        if realtime:
            a1[:, 0] = a2[:, 0] = 999.0
            r1[:, 0] = r2[:, 0] = 999.0
        ext = ".txt.gz" if gz else ".txt"
        names = [os.path.join(w, "41010%s%s" % (k, ext)) for k in ("w", "d", "i", "j", "k")]
        tt = [times[i] for i in order]
        sel = lambda a: a[order]  # noqa: E731
        if realtime:
            I.ndbc_realtime(names[0], tt, freqs, sel(spec), "spec", sep_freq=np.round(rs.rand(n) * 0.3, 3))
            for nm, arr, kind in zip(names[1:], (a1, a2, r1, r2), ("swdir", "swdir2", "swr1", "swr2")):
                I.ndbc_realtime(nm, tt, freqs, sel(arr), kind)
        else:
            I.ndbc_history(names[0], tt, freqs, sel(spec), "%7.2f", minutes, gz)
            for nm, arr, fmt in zip(names[1:], (a1, a2, r1, r2), ("%7.0f", "%7.0f", "%7.2f", "%7.2f")):
                I.ndbc_history(nm, tt, freqs, sel(arr), fmt, minutes, gz)
        dd = [10.0, 5.0, 30.0][case["variant"] % 3]
        dirs = np.arange(0, 360, dd)
        with ctx.lib("read_ndbc_ascii(%s, %s)" % ("realtime" if realtime else "history", "5 files" if five else "1 file")):
            ds = read_ndbc_ascii(names if five else names[0], dirs=dirs)
        _same_times(ds.time.values, times, "ndbc")
        _same(ds.freq.values, freqs, "ndbc-freq", rtol=1e-6)
        if five:
            _same(ds.dir.values, dirs, "ndbc-dir")
            v = ds.efth.transpose("time", "freq", "dir").values
            integ = v.sum(axis=-1) * dd
            _same(integ, spec, "ndbc-direction-integral", rtol=1e-9, atol=1e-12)
            if np.any(~np.isfinite(v)):
                raise Violation("ndbc-nonfinite", "non-finite values in the reconstructed spectrum")
        else:
            _same(ds.efth.transpose("time", "freq", "dir").values[..., 0], spec, "ndbc-1d")
    finally:
        shutil.rmtree(w, ignore_errors=True)
    ctx.nt((n >= 2 and case["shuffle"]) or five)
    ctx.label("ndbc-%s" % ("realtime" if realtime else "history"), "five" if five else "one", "minutes=%s" % minutes, "gz=%s" % gz)
    ctx.show(dict(format="ndbc", realtime=realtime, files=5 if five else 1, records=n, nf=nf, minutes=minutes, gz=gz))


# ----------------------------------------------------------------------------- Spotter / Datawell (E(f) + mean direction + spread)

def check_spotter(case, ctx):
    from wavespectra import read_spotter

    rs = _rs(case)
    w = _work()
    try:
        nf, n = case["nf"], case["n"]
        freqs = np.round(0.0293 + 0.00977 * np.arange(nf), 5)
        times, order = _times(case, n, 30, (2021, 9, 29, 1, 27, 19))
        ef = np.round(rs.rand(n, nf) * 3, 6)
        dmf = np.round(rs.rand(n, nf) * 359.9, 3)
        dsprf = np.round(5 + rs.rand(n, nf) * 75, 3)
        lat, lon = np.round(-40 + rs.rand(n), 5), np.round(170 + rs.rand(n), 5)
        extra = dict(hs=np.round(rs.rand(n) * 3, 2), tp=np.round(5 + rs.rand(n) * 10, 2), a1=np.round(rs.rand(n, nf) - 0.5, 4), b1=np.round(rs.rand(n, nf) - 0.5, 4), a2=np.round(rs.rand(n, nf) - 0.5, 4), b2=np.round(rs.rand(n, nf) - 0.5, 4))
        sel = lambda a: a[order]  # noqa: E731
        ex2 = {k: sel(v) for k, v in extra.items()}
        tt = [times[i] for i in order]
        js = case["variant"] % 2 == 1
        nfiles = 2 if (case["variant"] // 2 % 2 and n >= 2) else 1
        paths = []
        for part in range(nfiles):
            sl = slice(part * (n // 2), n if part == nfiles - 1 else (part + 1) * (n // 2)) if nfiles == 2 else slice(0, n)
            p = os.path.join(w, "spot%d.%s" % (part, "json" if js else "csv"))
            ex3 = {k: v[sl] for k, v in ex2.items()}
            if js:
                I.spotter_json(p, tt[sl], freqs, sel(ef)[sl], sel(dmf)[sl], sel(dsprf)[sl], sel(lat)[sl], sel(lon)[sl], ex3)
            else:
                epochs = [int((t - dt.datetime(1970, 1, 1)).total_seconds()) for t in tt[sl]]
                I.spotter_csv(p, epochs, freqs, sel(ef)[sl], sel(dmf)[sl], sel(dsprf)[sl], sel(lat)[sl], sel(lon)[sl], ex3)
            paths.append(p)
        dd = [5.0, 10.0, None, 15.0][case["variant"] // 4 % 4 if case["variant"] >= 4 else 0]
        with ctx.lib("read_spotter(%s, dd=%r)" % ("json" if js else "csv", dd)):
            ds = read_spotter(paths if nfiles > 1 else paths[0], dd=dd)
        if nfiles == 1:
            _same_times(ds.time.values, times, "spotter")
            tsort = np.argsort(np.array(times, dtype="datetime64[s]"))
        else:
            # several files are concatenated in the order given, each sorted internally
            _same_times(np.sort(ds.time.values), times, "spotter")
            ds = ds.sortby("time")
        _same(ds.freq.values, freqs, "spotter-freq")
        if dd is None:
            _same(ds.efth.transpose("time", "freq").values, ef, "spotter-1d")
        else:
            _same(ds.dir.values, np.arange(0, 360, dd), "spotter-dir")
            v = ds.efth.transpose("time", "freq", "dir").values
            _same(v.sum(axis=-1) * dd, ef, "spotter-direction-integral", rtol=1e-9, atol=1e-12)
            if v.min() < 0:
                raise Violation("spotter-negative", "negative density in the reconstructed spectrum")
        _same(ds.dmf.transpose("time", "freq").values, dmf, "spotter-dmf")
        _same(ds.lat.values, lat, "spotter-lat")
        _same(ds.lon.values, lon, "spotter-lon")
        _same(ds.hs.values, extra["hs"], "spotter-hs")
    finally:
        shutil.rmtree(w, ignore_errors=True)
    ctx.nt((n >= 2 and case["shuffle"]) or nfiles >= 2)
    ctx.label("spotter-%s" % ("json" if js else "csv"), "files=%d" % nfiles, "dd=%r" % dd)
    ctx.show(dict(format="spotter", filetype="json" if js else "csv", records=n, files=nfiles, nf=nf, dd=dd))


def check_datawell(case, ctx):
    from wavespectra import read_datawell

    rs = _rs(case)
    w = _work()
    try:
        nf, n = case["nf"], case["n"]
        freqs = np.round(0.025 + 0.005 * np.arange(nf), 3)
        times, order = _times(case, n, 29, (2024, 9, 9, 1, 15, 0))
        rel = np.array([[float("%.4E" % v) for v in row] for row in rs.rand(n, nf)])
        dmf = np.round(rs.rand(n, nf) * 359.9, 1)
        dsprf = np.round(5 + rs.rand(n, nf) * 75, 1)
        smax = np.array([float("%.4E" % v) for v in rs.rand(n) * 5 + 0.01])
        hs = np.round(rs.rand(n) * 300, 1)
        paths = [I.datawell_spt(w, times[i], freqs, rel[i], dmf[i], dsprf[i], smax[i], hs[i]) for i in order]
        dd = [5.0, None, 10.0, 20.0][case["variant"] % 4]
        lonlat = dict(lon=151.5, lat=-33.25) if case["variant"] // 4 % 2 else {}
        with ctx.lib("read_datawell(dd=%r)" % dd):
            ds = read_datawell(paths if case["variant"] % 2 else os.path.join(w, "*.spt"), dd=dd, **lonlat)
        _same_times(ds.time.values, times, "datawell")
        _same(ds.freq.values, freqs, "datawell-freq")
        ef = rel * smax[:, None]
        if dd is None:
            _same(ds.efth.transpose("time", "freq").values, ef, "datawell-1d")
        else:
            v = ds.efth.transpose("time", "freq", "dir").values
            _same(ds.dir.values, np.arange(0, 360, dd), "datawell-dir")
            _same(v.sum(axis=-1) * dd, ef, "datawell-direction-integral", rtol=1e-9, atol=1e-12)
        _same(ds.hs.values, hs / 100.0, "datawell-hs")
        if lonlat:
            if "time" in ds.lon.dims or float(ds.lon) != 151.5 or float(ds.lat) != -33.25:
                raise Violation("datawell-lonlat", "lon/lat %s %s" % (ds.lon.values, ds.lat.values))
    finally:
        shutil.rmtree(w, ignore_errors=True)
    ctx.nt(n >= 2)
    ctx.label("datawell", "files=%d" % n, "dd=%r" % dd)
    ctx.show(dict(format="datawell", files=n, nf=nf, dd=dd, lonlat=bool(lonlat)))


# ----------------------------------------------------------------------------- Obscape, WW3 station, XWaves

def check_obscape(case, ctx):
    from wavespectra import read_obscape

    rs = _rs(case)
    w = _work()
    try:
        nf, n = case["nf"], case["n"]
        freqs = np.round(0.048828 + 0.006104 * np.arange(nf), 6)
        dd = [3, 5, 10, 15][case["variant"] % 4]
        nd = 360 // dd
        times, order = _times(case, n, 30, (2024, 4, 3, 11, 30, 0))
        E = np.round(rs.rand(n, nf, nd) * 2, 4)
        paths = []
        for k, i in enumerate(order):
            p = os.path.join(w, "%s_Obscape2d_%d.csv" % (times[i].strftime("%Y%m%d_%H%M%S"), k))
            epoch = int((times[i] - dt.datetime(1970, 1, 1)).total_seconds())
            I.obscape_csv(p, epoch, freqs, dd, E[i])
            paths.append(p)
        with ctx.lib("read_obscape"):
            ds = read_obscape(paths if case["variant"] % 2 else os.path.join(w, "*.csv"))
        _same_times(ds.time.values, times, "obscape")
        _same(ds.freq.values, freqs, "obscape-freq")
        _same(ds.dir.values, np.arange(0, 360, dd), "obscape-dir")
        _same(ds.efth.transpose("time", "freq", "dir").values, E * math.pi / 180.0, "obscape-values")
    finally:
        shutil.rmtree(w, ignore_errors=True)
    ctx.nt(n >= 2)
    ctx.label("obscape", "files=%d" % n, "dd=%d" % dd)
    ctx.show(dict(format="obscape", files=n, nf=nf, dd=dd))


def check_ww3_station(case, ctx):
    from wavespectra import read_ww3_station

    rs = _rs(case)
    w = _work()
    try:
        nf, n = case["nf"], case["n"]
        freqs = np.array([float("%.3E" % v) for v in 0.035 * 1.07 ** np.arange(nf)])
        nd = [4, 6, 12, 24][case["variant"] % 4]
        d0 = [0.0, 5.0, 7.5][case["variant"] % 3]
        dirs = (d0 + np.arange(nd) * 360.0 / nd) % 360.0
        dirs = np.roll(dirs[::-1] if case["variant"] % 2 else dirs, case["variant"])
        times, order = _times(dict(case, shuffle=False), n, 60, (2014, 12, 1, 0, 0, 0))
        E = np.array([[[float("%.3E" % v) for v in row] for row in m] for m in rs.rand(n, nf, nd) * 10 ** rs.randint(-3, 2)])
        depth = np.round(50 + rs.rand(n) * 10, 1)
        wspd, wdir = np.round(rs.rand(n) * 20, 2), np.round(rs.rand(n) * 359, 1)
        p = os.path.join(w, "ww3station.spec")
        I.ww3_station(p, times, freqs, dirs, E, -35.25, 151.5, depth, wspd, wdir)
        with ctx.lib("read_ww3_station"):
            ds = read_ww3_station(p)
        _same_times(ds.time.values, times, "ww3station")
        _same(ds.freq.values, freqs, "ww3station-freq")
        got_d = np.asarray(ds.dir.values, dtype=float)
        idx = [int(np.argmin(np.abs(((got_d - x + 180) % 360) - 180))) for x in dirs]
        off = np.abs(((got_d[idx] - dirs + 180) % 360) - 180)
        if len(got_d) != len(dirs) or len(set(idx)) != len(dirs) or off.max() > 2e-6 or got_d.min() < 0 or got_d.max() >= 360:
            raise Violation("ww3station-dir", "directions %s, the file encodes coming-from %s" % (np.sort(got_d), np.sort(dirs)))
        v = ds.efth.squeeze(["lat", "lon"]).transpose("time", "freq", "dir").values[..., idx]
        _same(v, E * math.pi / 180.0, "ww3station-values", rtol=1e-9)
        _same(ds.wspd.values.ravel(), wspd, "ww3station-wspd")
        _same(ds.wdir.values.ravel(), wdir, "ww3station-wdir")
        _same(ds.dpt.values.ravel(), depth, "ww3station-depth")
        if abs(float(ds.lat.values.ravel()[0]) + 35.25) > 1e-9 or abs(float(ds.lon.values.ravel()[0]) - 151.5) > 1e-9:
            raise Violation("ww3station-position", "lat/lon %s %s" % (ds.lat.values, ds.lon.values))
    finally:
        shutil.rmtree(w, ignore_errors=True)
    ctx.nt(n >= 2 or case["variant"] % 2 == 1)
    ctx.label("ww3station", "records=%d" % n, "nd=%d" % nd)
    ctx.show(dict(format="ww3_station", records=n, nf=nf, nd=nd, first_dirs=[float(x) for x in dirs[:3]]))


def check_xwaves(case, ctx):
    from wavespectra import read_xwaves

    rs = _rs(case)
    w = _work()
    try:
        nf, n = case["nf"], case["n"]
        freqs = 0.03 + 0.01 * np.arange(nf)
        nd = [8, 12, 36][case["variant"] % 3]
        dirs = np.arange(nd) * 360.0 / nd
        times, _ = _times(dict(case, shuffle=False), n, 180, (2020, 5, 1, 0, 0, 0))
        E = rs.rand(n, nf, nd) * 3
        p = os.path.join(w, "xw.mat")
        I.xwaves_mat(p, times, freqs, dirs, E)
        with ctx.lib("read_xwaves"):
            ds = read_xwaves(p)
        _same_times(ds.time.values, times, "xwaves")
        _same(ds.freq.values, freqs, "xwaves-freq")
        _same(ds.dir.values, dirs, "xwaves-dir")
        _same(ds.efth.transpose("time", "freq", "dir").values, E * math.pi / 180.0, "xwaves-values", rtol=1e-12)
    finally:
        shutil.rmtree(w, ignore_errors=True)
    ctx.nt(n >= 2)
    ctx.label("xwaves", "records=%d" % n)
    ctx.show(dict(format="xwaves", records=n, nf=nf, nd=nd))


# ----------------------------------------------------------------------------- SWAN ASCII variants

def check_swan_variants(case, ctx):
    from wavespectra import read_swan

    rs = _rs(case)
    w = _work()
    try:
        nf, n = case["nf"], case["n"]
        v = case["variant"]
        freqs = np.round(0.04 * 1.1 ** np.arange(nf), 4)
        nd = [4, 8, 12][v % 3]
        ndir = v % 2 == 0
        asc = np.arange(nd) * 360.0 / nd + [0.0, 5.0, 7.5][v % 3]
        written = asc.copy() if ndir else ((270.0 - asc) % 360.0)
        if not ndir:
            written = np.where(written > 180, written - 360, written)
        else:
            # nautical listings also come with other whole-turn representatives: negative labels beyond 180 (SWAN's usual
            # 265, 255, ..., 5, -5, ..., -85 style) or north written as 360
            rep = ["plain", "plain", "negative", "north-as-360", "plus-turn-top"][case.get("opt", 0) % 5]
            if rep == "negative":
                written = np.where(written > 180, written - 360, written)
            elif rep == "north-as-360":
                written = np.where(written == 0.0, 360.0, written)
            elif rep == "plus-turn-top":
                written = np.where(written < 90.0, written + 360.0, written)
        written = np.roll(written, v)
        nautical = written % 360.0 if ndir else (270.0 - written) % 360.0
        nloc = [1, 2, 3][v // 2 % 3]
        xs = np.round(150.0 + 0.5 * np.arange(nloc) + 0.000001, 6)
        ys = np.round(-30.0 - 0.3 * np.arange(nloc), 6)
        with_time = v // 4 % 2 == 0
        energy = v // 3 % 2 == 1
        times, _ = _times(dict(case, shuffle=False), n if with_time else 1, 60, (2020, 1, 1, 0, 0, 0))
        nt = len(times)
        blocks, truth = [], np.zeros((nt, nloc, nf, nd))
        for t in range(nt):
            row = []
            for p in range(nloc):
                kind = ["FACTOR", "FACTOR", "ZERO", "NODATA"][rs.randint(0, 4)]
                if kind == "FACTOR":
                    fac = float("%.8E" % (10 ** rs.uniform(-8, -2)))
                    ints = rs.randint(0, 9999, size=(nf, nd))
                    row.append(("FACTOR", fac, ints))
                    truth[t, p] = ints * fac
                elif kind == "ZERO":
                    row.append(("ZERO",))
                else:
                    row.append(("NODATA",))
                    truth[t, p] = np.nan
            blocks.append(row)
        gz = v % 5 == 0
        path = os.path.join(w, "enc.spec" + (".gz" if gz else ""))
        I.swan_ascii(path, times if with_time else None, xs, ys, freqs, written, blocks, lonlat=v % 3 != 1, afreq=v % 4 != 3, ndir=ndir, energy_units=energy, gz=gz)
        with ctx.lib("read_swan(variant %d)" % v):
            ds = read_swan(path, as_site=True)
        if with_time:
            _same_times(ds.time.values, times, "swan")
        _same(ds.freq.values, freqs, "swan-freq")
        got_d = np.asarray(ds.dir.values, dtype=float)
        if not np.allclose(np.sort(got_d % 360), np.sort(nautical % 360), atol=1e-9):
            raise Violation("swan-dir", "directions %s, the file encodes nautical %s (%s)" % (np.sort(got_d), np.sort(nautical), "NDIR" if ndir else "CDIR"))
        idx = [int(np.argmin(np.abs(((got_d - x + 180) % 360) - 180))) for x in nautical]
        got = ds.efth.transpose("time", "site", "freq", "dir").values[..., idx]
        want = truth / (1025 * 9.81) if energy else truth
        _same(got, want, "swan-values", rtol=1e-12)
        _same(ds.lon.values, xs, "swan-lon")
        _same(ds.lat.values, ys, "swan-lat")
    finally:
        shutil.rmtree(w, ignore_errors=True)
    ctx.nt(True)
    ctx.label("swan", "NDIR" if ndir else "CDIR", "labels=" + (rep if ndir else "cartesian"), "time=%s" % with_time, "units=%s" % ("J" if energy else "m2"), "gz=%s" % gz, "nloc=%d" % nloc)
    ctx.show(dict(format="swan", variant=v, ndir=ndir, with_time=with_time, energy_units=energy, nloc=nloc, nf=nf, nd=nd, gz=gz))


# ----------------------------------------------------------------------------- vendor samples re-encoded

SAMPLES = ["triaxys.DIRSPEC", "triaxys.NONDIRSPEC", "ndbc_realtime", "datawell", "obscape", "ww3station.spec", "spotter_csv", "spotter_json"]


def sample_items(shard, nshards, tier):
    for i, s in enumerate(SAMPLES):
        if i % nshards == shard:
            yield dict(sample=s)


def check_sample(case, ctx):
    """Encode the vendor sample's own content with the reference encoder; the reader must return the same thing."""
    import pandas as pd
    import wavespectra as ws

    S = os.path.join(env.REPO, "tests", "sample_files")
    w = _work()
    name = case["sample"]
    try:
        if name.startswith("triaxys"):
            a = ws.read_triaxys(os.path.join(S, name))
            t = pd.Timestamp(a.time.values[0]).to_pydatetime()
            f = a.freq.values
            p = os.path.join(w, name)
            if "dir" in a.efth.dims:
                I.triaxys_dirspec(p, t, float(f[0]), float(f[1] - f[0]), a.efth.values[0], float(a.dir.values[1] - a.dir.values[0]))
            else:
                I.triaxys_nondirspec(p, t, float(f[0]), float(f[1] - f[0]), a.efth.values[0])
            b = ws.read_triaxys(p)
        elif name == "ndbc_realtime":
            src = [os.path.join(S, "ndbc", "41010." + k) for k in ("data_spec", "swdir", "swdir2", "swr1", "swr2")]
            a = ws.read_ndbc_ascii(src)
            from wavespectra.input.ndbc_ascii import read_file

            dfs = [read_file(s) for s in src]
            sep = dfs[0]["Sep_Freq"].values
            freqs = [c for c in dfs[0].columns if c != "Sep_Freq"]
            tt = [pd.Timestamp(x).to_pydatetime() for x in dfs[0].index]
            out = [os.path.join(w, "41010." + k) for k in ("data_spec", "swdir", "swdir2", "swr1", "swr2")]
            I.ndbc_realtime(out[0], tt, freqs, dfs[0][freqs].values, "spec", sep_freq=sep)
            for o, d, kind in zip(out[1:], dfs[1:], ("swdir", "swdir2", "swr1", "swr2")):
                I.ndbc_realtime(o, tt, freqs, d.values, kind)
            b = ws.read_ndbc_ascii(out)
        elif name == "datawell":
            src = os.path.join(S, "datawell", "*.spt")
            a = ws.read_datawell(src, dd=None)
            for k in range(a.sizes["time"]):
                t = pd.Timestamp(a.time.values[k]).to_pydatetime()
                smax = float(a.smax.values[k])
                I.datawell_spt(w, t, a.freq.values, a.efth.values[k] / smax, a.dmf.values[k], a.dsprf.values[k], smax, float(a.hs.values[k]) * 100)
            b = ws.read_datawell(os.path.join(w, "*.spt"), dd=None)
        elif name == "obscape":
            src = sorted(os.listdir(os.path.join(S, "obscape")))[0]
            a = ws.read_obscape(os.path.join(S, "obscape", src))
            t = pd.Timestamp(a.time.values[0]).to_pydatetime()
            I.obscape_csv(os.path.join(w, src), int((t - dt.datetime(1970, 1, 1)).total_seconds()), a.freq.values, float(a.dir.values[1] - a.dir.values[0]), a.efth.values[0] * 180.0 / math.pi)
            b = ws.read_obscape(os.path.join(w, src))
        elif name == "ww3station.spec":
            a = ws.read_ww3_station(os.path.join(S, name))
            tt = [pd.Timestamp(x).to_pydatetime() for x in a.time.values]
            e = a.efth.squeeze(["lat", "lon"]).transpose("time", "freq", "dir").values * 180.0 / math.pi
            I.ww3_station(os.path.join(w, name), tt, a.freq.values, a.dir.values, e, float(a.lat.values.ravel()[0]), float(a.lon.values.ravel()[0]), a.dpt.values.ravel(), a.wspd.values.ravel(), a.wdir.values.ravel())
            b = ws.read_ww3_station(os.path.join(w, name))
        else:
            js = name.endswith("json")
            src = os.path.join(S, "spotter_20180214.json" if js else "spotter_20210929.csv")
            a = ws.read_spotter(src, dd=None)
            tt = [pd.Timestamp(x).to_pydatetime() for x in a.time.values]
            extra = dict(hs=a.hs.values, tp=a.tp.values, a1=a.a1.values, b1=a.b1.values, a2=a.a2.values, b2=a.b2.values)
            p = os.path.join(w, "s.json" if js else "s.csv")
            if js:
                I.spotter_json(p, tt, a.freq.values, a.efth.values, a.dmf.values, a.dsprf.values, a.lat.values, a.lon.values, extra)
            else:
                I.spotter_csv(p, [int((t - dt.datetime(1970, 1, 1)).total_seconds()) for t in tt], a.freq.values, a.efth.values, a.dmf.values, a.dsprf.values, a.lat.values, a.lon.values, extra)
            b = ws.read_spotter(p, dd=None)
        for v in ("efth",):
            x, y = a[v], b[v]
            if x.dims != y.dims or x.shape != y.shape:
                raise Violation("sample-shape", "%s: vendor sample gives %s %s, re-encoded content gives %s %s" % (name, x.dims, x.shape, y.dims, y.shape))
            scale = max(float(np.nanmax(np.abs(x.values))), 1e-300)
            if not np.allclose(x.values, y.values, rtol=2e-3, atol=2e-4 * scale, equal_nan=True):
                raise Violation("sample-values", "%s: re-encoded content is read differently from the vendor sample" % name)
            for c in x.dims:
                xa, ya = np.asarray(x[c].values), np.asarray(y[c].values)
                if xa.dtype.kind == "M":
                    if not np.array_equal(xa.astype("datetime64[m]"), ya.astype("datetime64[m]")):
                        raise Violation("sample-coords", "%s: time differs" % name)
                elif xa.dtype.kind == "f" and not np.allclose(xa.astype(float), ya.astype(float), rtol=1e-3, atol=1e-3):
                    raise Violation("sample-coords", "%s: coordinate %s differs" % (name, c))
    finally:
        shutil.rmtree(w, ignore_errors=True)
    ctx.nt(True)
    ctx.show(dict(sample=name, dims=dict(a.efth.sizes)))


def facets():
    e = Enumeration("vendor_samples", sample_items, check_sample, bounds="the vendor samples shipped with the repository, re-encoded")
    e.shards = {"quick": 4, "thorough": 4}
    return [
        Facet("triaxys", base, check_triaxys, quick=400, thorough=8000, qshards=2),
        Facet("ndbc_ascii", base, check_ndbc, quick=400, thorough=8000, qshards=2),
        Facet("spotter", base, check_spotter, quick=300, thorough=6000, qshards=2),
        Facet("datawell", base, check_datawell, quick=300, thorough=6000, qshards=2),
        Facet("obscape", base, check_obscape, quick=200, thorough=6000, qshards=1),
        Facet("ww3_station", base, check_ww3_station, quick=200, thorough=6000, qshards=1),
        Facet("xwaves", base, check_xwaves, quick=100, thorough=3000, qshards=1),
        Facet("swan_variants", base, check_swan_variants, quick=500, thorough=10000, qshards=2),
        e,
    ]
