"""C19 - partition tracking assigns consistent wave-system identifiers over time."""
import itertools
import math

import numpy as np
from hypothesis import strategies as st

from .. import gen
from ..core import Enumeration, Facet, Violation

PROP = "C19"
RULE = (
    "A case is a history: peak frequency and peak direction of P partitions over T steps (NaN = empty), wind speed per "
    "step, a constant time step and the four threshold parameters. Exhaustive facets enumerate every history with "
    "P in {2,3}, T in {2,3} over fp in {NaN, 0.08, 0.0801, 0.12} and dpm in {0, 15, 350, 180}; random facets draw wave "
    "systems that appear, disappear, drift and swap partition slots (P <= 6, T <= 12) with random thresholds, at the "
    "numpy level, through track_partitions over several sites, and end to end through ptm1_track. Oracle: history "
    "invariants from the statement, thresholds recomputed independently. Non-trivial = at least one carried "
    "identifier and at least one birth after the first step; distinct by canonical hash (enumerations by construction)."
)
ASSUMPTIONS = [
    "thresholds recomputed from the documented formulas: swell dfp_max = dt*g/(4*pi*distance) (Snodgrass et al.), sea dfp limit = scaling*tmp*(t0+dt)^-0.43 - fp with tmp = 15.8 (g/U)^0.57 (Ewans & Kibblewhite), evaluated with the previous step's first-partition peak frequency and wind",
    "a carry is judged only when it is farther than 1e-12 (relative) from a threshold",
    "beyond the only-if direction stated, the documented matching rule is asserted in its unambiguous form: a current partition with exactly one admissible predecessor that no other current partition can claim must continue it",
]

G = 9.80665


def thresholds(fp0_prev, wspd_prev, dt, p):
    dfp_swell = dt * G / (4 * math.pi * p["dist"])
    if wspd_prev > 0 and not math.isnan(fp0_prev):
        tmp = 15.8 * (G / wspd_prev) ** 0.57
        t0 = (fp0_prev / tmp) ** (-1 / 0.43)
        dfp_sea = p["scaling"] * tmp * (t0 + dt) ** (-0.43) - fp0_prev
    else:
        dfp_sea = float("nan")
    return dfp_swell, dfp_sea


def admissible(fp, dpm, it, i, j, wspd, dt, p):
    """Can current partition i (step it) continue previous partition j (step it-1)? Returns True/False/None(boundary)."""
    if math.isnan(fp[i][it]) or math.isnan(fp[j][it - 1]):
        return False
    dfp_swell, dfp_sea = thresholds(fp[0][it - 1], wspd[it - 1], dt, p)
    ddpm = abs(((dpm[i][it] - dpm[j][it - 1]) + 180.0) % 360.0 - 180.0)
    dfp = fp[i][it] - fp[j][it - 1]
    dmax = p["ddpm_sea"] if j == 0 else p["ddpm_swell"]
    fmin = dfp_sea if j == 0 else -dfp_swell
    if math.isnan(ddpm) or math.isnan(fmin):
        return False
    for v, lim in ((ddpm, dmax), (dfp, dfp_swell), (dfp, fmin)):
        if abs(v - lim) <= 1e-12 * max(abs(lim), 1e-12) + 1e-15:
            return None
    return ddpm < dmax and dfp < dfp_swell and dfp > fmin


def invariants(fp, dpm, wspd, dt, p, ids, n, where=""):
    """fp, dpm: lists [part][time]; ids: array (part, time); n: reported count."""
    P, T = len(fp), len(fp[0])
    ids = np.asarray(ids)
    if ids.shape != (P, T):
        raise Violation("shape", "part_id shape %s for %d partitions x %d steps %s" % (ids.shape, P, T, where))
    seen_order = []
    carried = births_late = 0
    for t in range(T):
        col = []
        for i in range(P):
            v = int(ids[i, t])
            if math.isnan(fp[i][t]):
                if v != -999:
                    raise Violation("missing-marker", "empty partition %d at step %d has id %d %s" % (i, t, v, where))
                continue
            if v < 0:
                raise Violation("no-id", "non-empty partition %d at step %d has id %d %s" % (i, t, v, where))
            if v in col:
                raise Violation("duplicate-id", "id %d used twice at step %d %s" % (v, t, where))
            col.append(v)
            if v not in seen_order:
                seen_order.append(v)
                if t > 0:
                    births_late += 1
    if seen_order != list(range(len(seen_order))):
        raise Violation("id-order", "identifiers in order of first appearance are %s, expected 0..%d %s" % (seen_order[:12], len(seen_order) - 1, where))
    if int(n) != len(seen_order):
        raise Violation("count", "reported count %s but %d identifiers were issued %s" % (n, len(seen_order), where))
    for t in range(1, T):
        prev = {int(ids[j, t - 1]): j for j in range(P) if ids[j, t - 1] >= 0}
        cur = {int(ids[i, t]): i for i in range(P) if ids[i, t] >= 0}
        for v, i in cur.items():
            if v in prev:
                ok = admissible(fp, dpm, t, i, prev[v], wspd, dt, p)
                carried += 1
                if ok is False:
                    raise Violation("carry-outside-thresholds", "id %d carried from partition %d (fp %r dpm %r) at step %d to partition %d (fp %r dpm %r) at step %d %s" % (
                        v, prev[v], fp[prev[v]][t - 1], dpm[prev[v]][t - 1], t - 1, i, fp[i][t], dpm[i][t], t, where))
            else:
                # a new id at step t must never have been used before (ids are issued once)
                if any(v in ids[:, s] for s in range(t)):
                    raise Violation("id-reappears", "id %d absent at step %d reappears at step %d %s" % (v, t - 1, t, where))
        # unambiguous carry: exactly one admissible predecessor, claimed by nobody else
        adm = {}
        boundary = False
        for i in range(P):
            for j in range(P):
                a = admissible(fp, dpm, t, i, j, wspd, dt, p)
                if a is None:
                    boundary = True
                if a:
                    adm.setdefault(i, []).append(j)
        if not boundary:
            for i, js in adm.items():
                if len(js) == 1 and all(js[0] not in adm.get(k, []) for k in adm if k != i):
                    if int(ids[i, t]) != int(ids[js[0], t - 1]):
                        raise Violation("missed-carry", "partition %d at step %d can only continue partition %d of step %d (nobody else can) but got id %d instead of %d %s" % (
                            i, t, js[0], t - 1, ids[i, t], ids[js[0], t - 1], where))
    return carried, births_late


def run_np(fp, dpm, wspd, dt, p):
    from wavespectra.partition.tracking import np_track_partitions

    T = len(fp[0])
    times = (np.datetime64("2020-01-01T00:00:00") + np.arange(T) * np.timedelta64(int(dt), "s")).astype("datetime64[ns]")
    return np_track_partitions(times, np.array(fp, dtype=float), np.array(dpm, dtype=float), np.array(wspd, dtype=float),
                               ddpm_sea_max=p["ddpm_sea"], ddpm_swell_max=p["ddpm_swell"], dfp_sea_scaling=p["scaling"], dfp_swell_source_distance=p["dist"])


DEFAULTS = dict(ddpm_sea=30.0, ddpm_swell=20.0, scaling=1.0, dist=1e6)
FP_A = [float("nan"), 0.08, 0.0801, 0.12]
DPM_A = [0.0, 15.0, 350.0, 180.0]
CELLS = [(float("nan"), 0.0)] + [(f, d) for f in FP_A[1:] for d in DPM_A]


def enum_items(P, T):
    def items(shard, nshards, tier):
        ncell = P * T
        per = 4000
        total = len(CELLS) ** ncell
        k = 0
        for start in range(0, total, per):
            k += 1
            if k % nshards != shard:
                continue
            yield dict(P=P, T=T, start=start, count=min(per, total - start))

    return items


def check_enum(case, ctx):
    P, T = case["P"], case["T"]
    nc = len(CELLS)
    ncarry = 0
    nnt = 0
    for c in range(case["start"], case["start"] + case["count"]):
        r = c
        fp = [[0.0] * T for _ in range(P)]
        dpm = [[0.0] * T for _ in range(P)]
        for i in range(P):
            for t in range(T):
                f, d = CELLS[r % nc]
                r //= nc
                fp[i][t], dpm[i][t] = f, (float("nan") if math.isnan(f) else d)
        wspd = [10.0] * T
        with ctx.lib("np_track_partitions"):
            ids, n = run_np(fp, dpm, wspd, 3600.0, DEFAULTS)
        carried, births = invariants(fp, dpm, wspd, 3600.0, DEFAULTS, ids, n, where="(history fp=%s dpm=%s)" % (fp, dpm))
        if carried and births:
            nnt += 1
    ctx.evals = case["count"]
    ctx.nt(nnt > 0)
    ctx.extra_nt = max(0, nnt - 1)
    ctx.label("P=%d,T=%d" % (P, T))
    ctx.show(dict(P=P, T=T, first_index=case["start"], histories=case["count"], nontrivial=nnt))


@st.composite
def history(draw, maxP=6, maxT=12, P=None, T=None):
    P = P or draw(st.integers(2, maxP))
    T = T or draw(st.integers(2, maxT))
    nsys = draw(st.integers(1, P + 2))
    systems = []
    for _ in range(nsys):
        systems.append(dict(
            t0=draw(st.integers(0, T - 1)), t1=draw(st.integers(0, T - 1)), fp=draw(st.sampled_from([0.05, 0.08, 0.1, 0.15, 0.25])),
            dfp=draw(st.sampled_from([0.0, 0.0005, -0.0002, 0.002, 0.004, -0.003])), dpm=draw(st.floats(0, 360)), ddpm=draw(st.sampled_from([0.0, 3.0, -8.0, 19.0, 25.0, 40.0])),
        ))
    perm = [draw(st.permutations(list(range(P)))) for _ in range(T)]
    p = dict(ddpm_sea=draw(st.sampled_from([30.0, 10.0, 60.0])), ddpm_swell=draw(st.sampled_from([20.0, 5.0, 45.0])), scaling=draw(st.sampled_from([1.0, 0.5, 2.0])), dist=draw(st.sampled_from([1e6, 2e5, 5e6])))
    return dict(P=P, T=T, systems=systems, perm=perm, p=p, dt=draw(st.sampled_from([3600, 1800, 10800])), wspd=[draw(st.sampled_from([0.5, 5.0, 12.0, 25.0, 5.0, 12.0, 0.0, float("nan")])) for _ in range(T)])  # calm (0 m/s) and missing wind: no wind-sea threshold is defined then, so nothing may be carried from slot 0


def build_history(h):
    P, T = h["P"], h["T"]
    fp = [[float("nan")] * T for _ in range(P)]
    dpm = [[float("nan")] * T for _ in range(P)]
    for t in range(T):
        alive = [s for s in h["systems"] if min(s["t0"], s["t1"]) <= t <= max(s["t0"], s["t1"])][:P]
        slots = h["perm"][t]
        for k, s in enumerate(alive):
            age = t - min(s["t0"], s["t1"])
            fp[slots[k]][t] = max(0.02, s["fp"] + age * s["dfp"])
            dpm[slots[k]][t] = (s["dpm"] + age * s["ddpm"]) % 360.0
    return fp, dpm


def check_random(case, ctx):
    fp, dpm = build_history(case)
    with ctx.lib("np_track_partitions"):
        ids, n = run_np(fp, dpm, case["wspd"], float(case["dt"]), case["p"])
    carried, births = invariants(fp, dpm, case["wspd"], float(case["dt"]), case["p"], ids, n)
    ctx.nt(carried > 0 and births > 0)
    ctx.label("P=%d" % case["P"], "T=%s" % ("2-4" if case["T"] <= 4 else "5-12"), "carried" if carried else "no-carry", "late-births" if births else "no-late-birth")
    ctx.show(dict(P=case["P"], T=case["T"], fp=[[None if math.isnan(x) else round(x, 4) for x in r] for r in fp][:3], ids=np.asarray(ids).tolist()[:3], n=int(n)))


@st.composite
def multi_site(draw):
    ns = draw(st.integers(2, 3))
    first = draw(history(maxP=4, maxT=6))
    hs = [first] + [draw(history(P=first["P"], T=first["T"])) for _ in range(ns - 1)]
    for h in hs[1:]:
        h["dt"], h["p"] = first["dt"], first["p"]
    return dict(sites=hs, site_first=draw(st.booleans()))


def check_sites(case, ctx):
    import pandas as pd
    import xarray as xr
    from wavespectra.partition.tracking import track_partitions

    hs = case["sites"]
    P, T = hs[0]["P"], hs[0]["T"]
    data = [build_history(h) for h in hs]
    fp = np.array([d[0] for d in data])  # site, part, time
    dpm = np.array([d[1] for d in data])
    wspd = np.array([h["wspd"] for h in hs], dtype=float)  # site, time
    times = pd.date_range("2020-01-01", periods=T, freq="%ds" % hs[0]["dt"])
    coords = dict(site=np.arange(len(hs)), part=np.arange(P), time=times)
    stats = xr.Dataset(dict(fp=(("site", "part", "time"), fp), dpm=(("site", "part", "time"), dpm)), coords=coords)
    w = xr.DataArray(wspd, coords=dict(site=coords["site"], time=times), dims=("site", "time"))
    if not case["site_first"]:
        stats = stats.transpose("part", "time", "site")
        w = w.transpose("time", "site")
    p = hs[0]["p"]
    with ctx.lib("track_partitions"):
        out = track_partitions(stats, w, ddpm_sea_max=p["ddpm_sea"], ddpm_swell_max=p["ddpm_swell"], dfp_sea_scaling=p["scaling"], dfp_swell_source_distance=p["dist"])
        ids = out.part_id.transpose("site", "part", "time").values
        n = out.npart_id.transpose("site").values
    nt = False
    for s, h in enumerate(hs):
        with ctx.lib("np_track_partitions(site %d)" % s):
            ids1, n1 = run_np(data[s][0], data[s][1], h["wspd"], float(h["dt"]), p)
        if not np.array_equal(ids[s], ids1) or int(n[s]) != int(n1):
            raise Violation("site-dependence", "site %d tracked inside a %d-site dataset differs from its own single-site run: %s vs %s" % (s, len(hs), ids[s].tolist(), np.asarray(ids1).tolist()))
        carried, births = invariants(data[s][0], data[s][1], h["wspd"], float(h["dt"]), p, ids[s], n[s], where="(site %d)" % s)
        nt = nt or (carried > 0 and births > 0)
    ctx.nt(nt)
    ctx.label("sites=%d" % len(hs), "site_first=%s" % case["site_first"])
    ctx.show(dict(sites=len(hs), P=P, T=T, ids=ids[0].tolist()))


@st.composite
def e2e_case(draw):
    fg = draw(gen.freq_grid(6, 12))
    dg = draw(gen.dir_grid(6, 16, spacing=("whole",)))
    T = draw(st.integers(2, 5))
    ns = draw(st.integers(1, 2))
    specs = [draw(gen.spectrum(kinds=("multi", "multinoisy", "sparse", "zero"))) for _ in range(T * ns)]
    return dict(fg=fg, dg=dg, dims=[["time", T], ["site", ns]], specs=specs, swells=draw(st.integers(1, 3)), wspd=draw(st.sampled_from([3.0, 10.0, 20.0])),
                winds=[dict(wspd=draw(st.sampled_from([3.0, 10.0, 20.0])), wdir=draw(st.floats(0, 360)), dpt=50.0) for _ in range(T * ns)])


def check_e2e(case, ctx):
    from .c05 import winds_of

    x = gen.build_dataarray(case["fg"], case["dg"], case["specs"], case["dims"], dtype="float64")
    aux = winds_of(case, x)
    with ctx.lib("ptm1_track"):
        out = x.spec.partition.ptm1_track(aux["wspd"], aux["wdir"], aux["dpt"], swells=case["swells"]).compute()
        st_ = out.efth.spec.stats(["fp", "dpm"]).compute()
    fp = st_.fp.transpose("site", "part", "time").values.astype(float)
    dpm = st_.dpm.transpose("site", "part", "time").values.astype(float)
    ids = out.part_id.transpose("site", "part", "time").values
    n = out.npart_id.transpose("site").values
    w = aux["wspd"].transpose("site", "time").values
    nt = False
    for s in range(fp.shape[0]):
        carried, births = invariants(fp[s].tolist(), dpm[s].tolist(), w[s].tolist(), 10800.0, DEFAULTS, ids[s], n[s], where="(ptm1_track site %d)" % s)
        nt = nt or (carried > 0 and births > 0)
    ctx.nt(nt)
    ctx.show(dict(dims=case["dims"], swells=case["swells"], ids=ids[0].tolist()))


def facets():
    out = []
    for P, T, tiers, sh in ((2, 2, ("quick", "thorough"), {"quick": 4, "thorough": 8}), (3, 2, ("thorough",), {"thorough": 16}), (2, 3, ("thorough",), {"thorough": 16})):
        e = Enumeration("enum_P%d_T%d" % (P, T), enum_items(P, T), check_enum, tiers=tiers, bounds="all histories P=%d T=%d over 13 cell values" % (P, T))
        e.shards = sh
        out.append(e)
    out += [
        Facet("random", history(), check_random, quick=3000, thorough=80000, qshards=4),
        Facet("sites", multi_site(), check_sites, quick=150, thorough=5000, qshards=2),
        Facet("ptm1_track", e2e_case(), check_e2e, quick=40, thorough=1500, qshards=4),
    ]
    return out


def extra_evidence(merged, tier):
    subs = [k for k in merged if k.startswith("enum_") and merged[k]["exhaustive"]]
    return dict(exhaustive_subspaces=["every history %s over fp in {NaN,0.08,0.0801,0.12} x dpm in {0,15,350,180}" % k[5:] for k in subs])
