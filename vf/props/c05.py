"""C05 - results depend on labelled values, not on storage order, memory layout or dtype width."""
import numpy as np
from hypothesis import strategies as st

from .. import gen, ops
from ..core import Facet, Violation
from .c10 import _conditioning

PROP = "C05"
RULE = (
    "A case is (dataset x, storage transformation T, operation O). x: 3..10 frequencies, 3..16 uniform full-circle "
    "directions (whole/dyadic-degree spacing), 0-2 leading dims, multi-peak spectra with multiplicative noise (no exact "
    "ties). T in {dimension permutation materialised in memory (incl. dir before freq and spectral dims first), Fortran "
    "order, strided view of a larger buffer, float32 vs float64 holding the same values, roll of the stored directions "
    "by any k (k=1 puts the seam between the first two), reversal of the stored directions}, also combined. O ranges "
    "over the operation catalogue (statistics, smoothing, regridding, rotation, splits, ptm1-5, bbox) and the numpy "
    "level np_ptm1/2/3. Oracle: O(T(x)) and O(x) agree after sorting by coordinate labels. Non-trivial = T is not the "
    "identity and the spectra are not invariant under it; distinct by canonical hash."
)
ASSUMPTIONS = [
    "reversal is not applied to the watershed methods (the statement allows their tie-breaking to depend on orientation)",
    "discrete choices (peak bin, peak direction) are compared only when the reference says they are well conditioned; mean directions only when the resultant is not near zero",
    "tolerance 1e-9 relative for pure relabellings (summation order may change with layout), 2e-5 across dtype width",
]

TRANSFORMS = ["permute", "fortran", "strided", "width", "roll", "roll1", "reverse", "permute+roll", "fortran+roll1", "f32+fortran", "f32+permute"]


@st.composite
def layout_case(draw, names=None):
    fg = draw(gen.freq_grid(3, 10))
    dg = draw(gen.dir_grid(3, 16, orders=("asc",), spacing=("whole", "dyadic", "arbitrary")))
    # a partial sector (uniform, not covering the circle): smoothing and splits treat it as non-circular
    if draw(st.integers(0, 3)) == 0 and dg["n"] >= 5:
        k = draw(st.integers(1, dg["n"] - 3))
        dg = dict(dg, n=dg["n"] - k, d=dg["d"][: dg["n"] - k], partial=True)
    dims = draw(gen.extra_dims(maxdims=2, maxsize=3))
    npos = int(np.prod([n for _, n in dims])) if dims else 1
    specs = [draw(gen.spectrum(kinds=("multinoisy",))) for _ in range(min(npos, 3))]
    op = draw(ops.op_spec(names=names, has_dir=True, nf=len(fg["f"])))
    T = draw(st.sampled_from(TRANSFORMS))
    fam = ops.CATALOGUE[op["op"]][2]
    if fam == "watershed" and T == "reverse":
        T = "roll"
    ok = [n for n in (names or list(ops.CATALOGUE)) if len(fg["f"]) >= ops.CATALOGUE[n][1]]
    more = draw(st.lists(st.sampled_from(sorted(ok)), unique=True, min_size=min(2, len(ok)), max_size=min(2, len(ok))))
    return dict(fg=fg, dg=dg, dims=dims, specs=specs, op=op, T=T, more=more, perm=draw(st.permutations(list(range(len(dims) + 2)))),
                roll=draw(st.integers(1, dg["n"] - 1)), winds=[dict(wspd=draw(st.floats(2, 30)), wdir=draw(st.floats(0, 360)), dpt=draw(st.sampled_from([5.0, 40.0, 500.0]))) for _ in range(min(npos, 3))])


def winds_of(case, da):
    import xarray as xr

    lead = [d for d, _ in case["dims"]]
    shape = [n for _, n in case["dims"]]
    npos = int(np.prod(shape)) if shape else 1

    def field(key):
        vals = np.array([case["winds"][p % len(case["winds"])][key] for p in range(npos)], dtype=float).reshape(shape)
        return xr.DataArray(vals, coords={d: da[d] for d in lead}, dims=lead)

    return dict(wspd=field("wspd"), wdir=field("wdir"), dpt=field("dpt"))


def transform(da, T, case):
    """Return T(da): same labelled values, different storage."""
    out = da
    for t in T.split("+"):
        if t == "permute":
            dims = [out.dims[i] for i in case["perm"]]
            tr = out.transpose(*dims)
            out = tr.copy(data=np.ascontiguousarray(tr.values))
        elif t == "fortran":
            out = out.copy(data=np.asfortranarray(out.values))
        elif t == "strided":
            v = out.values
            big = np.full(v.shape[:-1] + (2 * v.shape[-1],), -7.0, dtype=v.dtype)
            big[..., ::2] = v
            out = out.copy(data=big[..., ::2])
        elif t == "width":
            out = out.astype("float64")
        elif t == "f32":
            pass  # marker: the canonical object is built in single precision and stays so (layouts of float32 data)
        elif t in ("roll", "roll1"):
            k = 1 if t == "roll1" else case["roll"]
            out = out.roll(dir=k, roll_coords=True)
            out = out.copy(data=np.ascontiguousarray(out.values))
        elif t == "reverse":
            out = out.isel(dir=slice(None, None, -1))
            out = out.copy(data=np.ascontiguousarray(out.values))
        else:
            raise ValueError(t)
    return out


def check_layout(case, ctx):
    """Every storage transformation for the drawn operation and two more (sampling one (T, O) pair per dataset
    left pairs such as (reverse, rotate by whole bins) unvisited in a quick run)."""
    names = [case["op"]["op"]] + [n for n in case.get("more", []) if n != case["op"]["op"]]
    nt, sample = False, None
    for name in names:
        for T in TRANSFORMS:
            if ops.CATALOGUE[name][2] == "watershed" and "reverse" in T:
                continue
            c = dict(case, T=T, op=dict(case["op"], op=name))
            ctx.nontrivial = False
            _check_one(c, ctx)
            nt = nt or ctx.nontrivial
            sample = sample or ctx.sample
            ctx.evals += 1
    ctx.evals -= 1
    ctx.nontrivial, ctx.sample = nt, sample


def _check_one(case, ctx):
    T = case["T"]
    dtype = "float32" if ("width" in T or "f32" in T) else "float64"
    x = gen.build_dataarray(case["fg"], case["dg"], case["specs"], case["dims"], dtype=dtype)
    y = transform(x, T, case)
    aux = winds_of(case, x)
    op = case["op"]
    name = op["op"]
    fam = ops.CATALOGUE[name][2]
    ctx.label("T=" + T, "op=" + name, "family=" + fam, "dirs=%s/%s" % (case["dg"]["spacing"], "partial" if case["dg"].get("partial") else "full"))
    if tuple(y.dims) != tuple(x.dims):
        ctx.label("dims-reordered")
        if list(y.dims).index("dir") < list(y.dims).index("freq"):
            ctx.label("dir-before-freq")
    # conditioning of discrete choices on the reference side
    if fam in ("peak", "peakdir", "peakwidth", "statsds", "dp", "dir") or name in ("scale_by_hs",):
        f, dirs = np.array(case["fg"]["f"]), np.array(case["dg"]["d"])
        peak_ok, dp_ok, dm_cond, dpm_cond = _conditioning(x, f, dirs, 1e-9 if dtype == "float64" else 1e-4)
        bad = False
        if fam in ("peak", "peakwidth", "statsds") or name == "scale_by_hs":
            bad |= not peak_ok.all()
        if fam in ("peakdir", "statsds"):
            bad |= not (peak_ok.all() and (dpm_cond < 1e3).all())
        if fam == "dp":
            bad |= not dp_ok.all()
        if fam in ("dir", "statsds"):
            bad |= not (dm_cond < 1e3).all()
        if bad:
            ctx.label("ill-conditioned-choice(skipped)")
            return
    with ctx.lib("%s on canonical layout" % name):
        ra = ops.apply(op, x, aux)
        ra = [r.compute() for r in ra] if isinstance(ra, tuple) else ra.compute()
    with ctx.lib("%s on %s layout" % (name, T)):
        rb = ops.apply(op, y, aux)
        rb = [r.compute() for r in rb] if isinstance(rb, tuple) else rb.compute()
    rtol = 2e-5 if ("width" in T or "f32" in T) else 1e-9
    if fam in ("peak", "peakdir", "peakwidth", "statsds") or name in ("dp",):
        rtol = max(rtol, 2e-6)  # float32 outputs
    if fam in ("width", "widthf", "peakwidth"):
        rtol = max(rtol, 1e-6)
    rad = None
    if fam in ("width", "widthf", "peakwidth"):
        # compared through the radicand: rounding of the evaluation (float32 data under "width", float32 outputs of the peak
        # family, summation order otherwise) times the scale of the radicand (2 (180/pi)^2 deg^2 for spreads, O(1) otherwise)
        eps = 3e-5 if ("width" in T or "f32" in T) else 1e-7 if fam == "peakwidth" else 1e-10
        rad = eps * (2.0 * (180.0 / np.pi) ** 2 if name in ("dspr", "fdspr", "dpspr") else 0.1 if name == "gw" else 1.0)
    atol_rel = 1e-7 if fam in ("width", "widthf", "peakwidth") else None
    if name in ("crsd", "momd1", "uss_x", "uss_y_depth"):
        atol_rel = rtol  # signed sums (sin / cos weights cancel): rounding is relative to the largest magnitude, not to each value
    msg = ops.compare(ra, rb, rtol, fam, "%s(%s x) vs %s(x)" % (name, T, name), atol_rel=atol_rel, radicand=rad)
    if msg:
        raise Violation("layout:" + T, msg)
    ctx.nt(True)
    ctx.show(gen.describe(case["fg"], case["dg"], case["specs"], case["dims"], T=T, op=name, stored_dims=list(y.dims)))


@st.composite
def np_case(draw):
    fg = draw(gen.freq_grid(2, 12))
    dg = draw(gen.dir_grid(2, 18, orders=("asc",)))
    return dict(fg=fg, dg=dg, spec=draw(gen.spectrum(kinds=("multinoisy",))), T=draw(st.sampled_from(["fortran", "strided", "width", "roll", "roll1", "transposed-view", "f32-fortran", "f32-transposed-view", "f32-strided"])),
                roll=draw(st.integers(1, dg["n"] - 1)), method=draw(st.sampled_from(["ptm1", "ptm2", "ptm3"])), k=draw(st.integers(1, 5)), ihmax=draw(st.sampled_from([5, 100])),
                wind=dict(wspd=draw(st.floats(2, 30)), wdir=draw(st.floats(0, 360)), dpt=draw(st.sampled_from([5.0, 40.0, 500.0]))))


def check_np(case, ctx):
    from wavespectra.partition import partition as P

    f, d = np.array(case["fg"]["f"]), np.array(case["dg"]["d"])
    T = case["T"]
    E = gen.build_spectrum(case["spec"], len(f), len(d), dtype=np.float32 if (T == "width" or T.startswith("f32-")) else np.float64)
    E2, d2 = E, d
    label = T
    T = T[4:] if T.startswith("f32-") else T  # the same layouts of single-precision data
    if T == "fortran":
        E2 = np.asfortranarray(E)
    elif T == "transposed-view":
        E2 = np.ascontiguousarray(E.T).T  # shape (nf, nd) but dir-major memory
    elif T == "strided":
        big = np.full((E.shape[0], 2 * E.shape[1]), -3.0, dtype=E.dtype)
        big[:, ::2] = E
        E2 = big[:, ::2]
    elif T == "width":
        E2 = E.astype(np.float64)
    elif T in ("roll", "roll1"):
        k = 1 if T == "roll1" else case["roll"]
        E2, d2 = np.ascontiguousarray(np.roll(E, k, axis=1)), np.roll(d, k)

    def run(Ex, dx):
        w = case["wind"]
        if case["method"] == "ptm3":
            return np.asarray(P.np_ptm3(Ex, Ex, f, dx, parts=case["k"], ihmax=case["ihmax"]))
        fn = P.np_ptm1 if case["method"] == "ptm1" else P.np_ptm2
        return np.asarray(fn(Ex, Ex, f, dx, w["wspd"], w["wdir"], w["dpt"], swells=case["k"], ihmax=case["ihmax"]))

    with ctx.lib("np_%s" % case["method"]):
        a = run(E, d)
    T = label
    with ctx.lib("np_%s on %s" % (case["method"], T)):
        b = run(E2, d2)
    if T in ("roll", "roll1"):
        k = 1 if T == "roll1" else case["roll"]
        b = np.roll(b, -k, axis=2)
    if a.shape != b.shape or not np.allclose(a, b, rtol=1e-6, atol=0):
        raise Violation("np-layout:" + T, "np_%s gives different partitions for the same labelled spectrum stored as %s (shapes %s %s)" % (case["method"], T, a.shape, b.shape))
    ctx.nt(True)
    ctx.label("T=" + T, "method=" + case["method"])
    ctx.show(dict(grid=[len(f), len(d)], T=T, method=case["method"], k=case["k"]))


def facets():
    S, TR, SP, WS = ops.STAT_NAMES, ops.TRANSFORM_NAMES, ops.SPLIT_NAMES, ops.WATERSHED_NAMES
    return [
        Facet("stats", layout_case(S), check_layout, quick=160, thorough=6000, qshards=8),
        Facet("transforms", layout_case(TR), check_layout, quick=100, thorough=3000, qshards=5),
        Facet("splits", layout_case(SP), check_layout, quick=50, thorough=1600, qshards=2),
        Facet("watershed", layout_case(WS), check_layout, quick=60, thorough=2000, qshards=3),
        Facet("np_level", np_case(), check_np, quick=400, thorough=20000, qshards=1),
    ]
