"""C12 - model-native datasets are converted with the right units and direction sense."""
import math

import numpy as np
from hypothesis import strategies as st

from .. import gen
from ..core import Facet, Violation
from ..enc import native
from ..ref import stats as R

PROP = "C12"
RULE = (
    "A case is a physical truth (variance density per hertz per degree on coming-from directions: 1-3 times x 1-4 sites, "
    "2..10 frequencies, 3..16 uniform directions with any offset and stored order, non-symmetric multi-peak spectra, wind "
    "speed / coming-from direction, depth) encoded in memory in one native convention: WW3 (m2 s rad-1 on going-to "
    "degrees, lon/lat with or without a time dimension), SWAN netCDF (per radian, directions in radians, wind as "
    "components), WWM (wave action on rad/s and rad), ERA5 (log10 of m2 s rad-1 with NaN for no energy, integer "
    "frequency/direction positions, lat x lon grid), NDBC (E(f) plus r1, r2, alpha1, alpha2). Oracle: read_dataset picks "
    "the reader from the variables and returns efth(freq, dir) such that every bin equals the truth at the label of the "
    "same physical direction, the variance integrated in native units equals the variance integrated with the converted "
    "coordinates, directions lie in [0,360), winds come back as speed and coming-from direction, optional variables "
    "may be absent. Non-trivial = at least two directions with different energy and a spectrum that is not symmetric "
    "under a 180 degree turn; distinct by canonical hash."
)
ASSUMPTIONS = [
    "native layouts are built by vf/enc/native.py from the format descriptions and the variable names the dispatcher keys on; nothing is written to disk (netCDF4 is not installed), so the file-opening halves of the readers are outside this check",
    "ERA5 frequency/direction values are supplied through the documented freqs/dirs arguments (the file carries integer positions only)",
    "NDBC directional reconstruction is checked against the Longuet-Higgins formula D = (1/2 + r1 cos(th-a1) + r2 cos 2(th-a2))/pi per radian and its integral over the circle",
]


@st.composite
def native_case(draw, model=None):
    fg = draw(gen.freq_grid(2, 10))
    dg = draw(gen.dir_grid(3, 16))
    nt = draw(st.integers(1, 3))
    ns = draw(st.sampled_from([1, 2, 4]))
    model = model or draw(st.sampled_from(["ww3", "ncswan", "wwm", "era5"]))
    if model == "era5":
        ns = draw(st.sampled_from([2, 4, 6]))
    specs = [draw(gen.spectrum(kinds=("multinoisy", "multi", "sparse", "zero" if model == "era5" else "multi"))) for _ in range(min(nt * ns, 4))]
    for s in specs:
        s["amp"] = draw(st.sampled_from([1e-3, 1.0, 30.0]))
    winds = [dict(wspd=draw(st.floats(0.5, 40)), wdir=draw(st.floats(0, 359.9)), dpt=draw(st.floats(1, 4000))) for _ in range(min(nt * ns, 4))]
    return dict(model=model, fg=fg, dg=dg, nt=nt, ns=ns, specs=specs, winds=winds, latlon_time=draw(st.booleans()), with_wind=draw(st.booleans()), with_depth=draw(st.booleans()),
                era5_sparse=draw(st.booleans()), era5_args=draw(st.sampled_from(["both", "both", "none", "freqs-only", "dirs-only"])), turns=draw(st.sampled_from(["none", "none", "neg", "plus", "from270"])))


def _native_variance(case, T, nds):
    """Variance per spectrum integrated in the *native* units and coordinates (independent arithmetic)."""
    f = T["f"]
    df = R.df_of(f)
    n = len(T["d"])
    m = case["model"]
    if m == "ww3":
        E = np.asarray(nds.efth.values, dtype=float)  # m2 s / rad, directions in degrees
        dth = 2 * math.pi / n
        return (E * df[None, None, :, None] * dth).sum(axis=(-1, -2))
    if m == "ncswan":
        E = np.asarray(nds.density.values, dtype=float)  # m2 / Hz / rad
        return (E * df[None, None, :, None] * (2 * math.pi / n)).sum(axis=(-1, -2))
    if m == "wwm":
        N = np.asarray(nds.AC.values, dtype=float)  # action density per (rad/s) per rad
        sig = np.asarray(nds.SPSIG.values, dtype=float)
        dsig = R.df_of(sig)
        return (N * sig[None, None, :, None] * dsig[None, None, :, None] * (2 * math.pi / n)).sum(axis=(-1, -2))
    if m == "era5":
        d2 = np.asarray(nds.d2fd.values, dtype=float)  # time, frequency, direction, lat, lon
        E = np.where(np.isnan(d2), 0.0, 10.0**d2)
        v = (E * df[None, :, None, None, None] * (2 * math.pi / n)).sum(axis=(1, 2))
        return v.reshape(v.shape[0], -1)
    raise ValueError(m)


def check_native(case, ctx):
    from wavespectra.input.dataset import read_dataset

    m = case["model"]
    fg, dg = case["fg"], case["dg"]
    ea = case.get("era5_args", "both") if m == "era5" else "both"
    if ea in ("none", "dirs-only"):
        # the documented ERA5 grid: 30 frequencies from 0.03453 Hz in steps of 10 %, 24 directions (going to) 7.5, 22.5, ...
        fg = dict(fg, f=[0.03453 * 1.1**k for k in range(30)])
    if ea in ("none", "freqs-only"):
        dg = dict(dg, n=24, d=[(7.5 + 15.0 * k + 180.0) % 360.0 for k in range(24)])
    T = native.truth(fg, dg, case["specs"], case["nt"], case["ns"], case["winds"], gen)
    # the same physical directions written with other whole-turn representatives (radian models): (-180,180], one turn up,
    # or a circle that starts at 270 and runs past 360
    # only for the SWAN layout, whose converter itself wraps (`% 360`), i.e. is written to accept them; WWM writes [0, 2 pi)
    tm = case.get("turns", "none") if m == "ncswan" else "none"
    T["turns"] = {"none": np.zeros(len(T["d"])), "neg": np.where(T["d"] > 180.0, -1.0, 0.0), "plus": np.ones(len(T["d"])),
                  "from270": np.where(T["d"] < 270.0, 1.0, 0.0)}[tm]
    if m == "era5" and case["era5_sparse"]:
        T["E"][T["E"] < 0.05 * T["E"].max()] = 0.0  # zero bins become missing values in the log10 field
    kw = {}
    if m == "ww3":
        nds = native.ww3(T, latlon_time=case["latlon_time"], with_wind=case["with_wind"], with_depth=case["with_depth"])
    elif m == "ncswan":
        nds = native.ncswan(T, with_wind=case["with_wind"], with_depth=case["with_depth"], latlon_time=case["latlon_time"])
    elif m == "wwm":
        nds = native.wwm(T, with_wind=case["with_wind"], with_depth=case["with_depth"])
    else:
        nds = native.era5(T, nlat=2)
        kw = dict(freqs=list(T["f"]), dirs=list(T["d"]))
        if ea in ("none", "dirs-only"):
            kw.pop("freqs")
        if ea in ("none", "freqs-only"):
            kw.pop("dirs")
        ctx.label("era5-args=" + ea)
    with ctx.lib("read_dataset(%s layout)" % m):
        out = read_dataset(nds, **kw)
        out = out.compute()
    if "efth" not in out or "freq" not in out.efth.dims or "dir" not in out.efth.dims:
        raise Violation("dispatch", "read_dataset(%s) did not return efth(freq, dir): variables %s dims %s" % (m, list(out.data_vars), dict(out.sizes)))
    ef = out.efth
    od = np.asarray(ef.dir.values, dtype=float)
    if od.min() < 0 or od.max() >= 360.0:
        raise Violation("dir-range", "directions outside [0,360): %s" % od[:6])
    if not np.allclose(np.asarray(ef.freq.values, dtype=float), T["f"], rtol=1e-12):
        raise Violation("freq", "frequencies %s, truth %s" % (ef.freq.values[:4], T["f"][:4]))
    # bin-wise: truth direction d (coming from) must be found at label d
    if m == "era5":
        arr = ef.transpose("time", "lat", "lon", "freq", "dir").values.reshape(T["nt"], T["ns"], len(T["f"]), len(od))
    else:
        arr = ef.transpose("time", "site", "freq", "dir").values
    arr = np.asarray(arr, dtype=float)
    idx = []
    for dv in T["d"]:
        j = np.nonzero(np.abs(od - (dv % 360.0)) < 1e-7)[0]
        if len(j) != 1:
            raise Violation("dir-labels", "physical direction %r (coming from) not found among converted labels %s" % (dv, od[:8]))
        idx.append(int(j[0]))
    got = arr[..., idx]
    scale = max(np.abs(T["E"]).max(), 1e-300)
    if np.any(np.isnan(got)):
        raise Violation("nan", "converted spectra contain NaN")
    if not np.all(np.abs(got - T["E"]) <= 1e-9 * scale):
        t, s, i, j = np.argwhere(np.abs(got - T["E"]) > 1e-9 * scale)[0]
        raise Violation("bin", "%s: bin (f=%r, coming-from %r deg) holds %r m2/Hz/deg, the native field holds %r (units / direction sense)" % (m, T["f"][i], T["d"][j], got[t, s, i, j], T["E"][t, s, i, j]))
    # variance: native integral vs integral with the converted coordinates
    nat = _native_variance(case, T, nds)
    conv = np.empty((T["nt"], T["ns"]))
    for t in range(T["nt"]):
        for s in range(T["ns"]):
            conv[t, s] = R.Spec(arr[t, s], np.asarray(ef.freq.values, dtype=float), od).momf(0)
    if not np.allclose(conv, nat, rtol=1e-9, atol=1e-300):
        raise Violation("variance", "%s: variance integrated in native units %s, with converted coordinates %s" % (m, nat.ravel()[:3], conv.ravel()[:3]))
    # winds / depth / positions
    if m in ("ww3", "ncswan", "wwm"):
        if case["with_wind"]:
            for name, want in (("wspd", T["wspd"]), ("wdir", T["wdir"])):
                if name not in out:
                    raise Violation("wind-missing", "%s not returned for %s" % (name, m))
                v = np.asarray(out[name].transpose("time", "site").values, dtype=float)
                if name == "wdir":
                    dlt = np.abs(v - want) % 360.0
                    ok = np.all(np.minimum(dlt, 360 - dlt) < 1e-6)
                else:
                    ok = np.allclose(v, want, rtol=1e-9)
                if not ok:
                    raise Violation("wind", "%s: %s comes back as %s, given %s (speed, coming-from direction)" % (m, name, v.ravel()[:3], want.ravel()[:3]))
        if case["with_depth"] and "dpt" in out:
            if not np.allclose(np.asarray(out.dpt.transpose("time", "site").values, dtype=float), T["dpt"], rtol=1e-9):
                raise Violation("depth", "depth changed")
        for name, want in (("lon", T["lon"]), ("lat", T["lat"])):
            if name in out:
                v = out[name]
                if "time" in v.dims:
                    raise Violation("lonlat-time", "%s still depends on time" % name)
                if not np.allclose(np.asarray(v.values, dtype=float).ravel(), want, rtol=1e-12):
                    raise Violation("lonlat", "%s changed: %s vs %s" % (name, v.values, want))
    E = T["E"]
    asym = not np.allclose(E, np.roll(E, len(T["d"]) // 2, axis=-1)) if len(T["d"]) % 2 == 0 else True
    ctx.nt(bool(asym and np.any(E.max(axis=-1) > E.min(axis=-1))))
    ctx.label("model=" + m, "native-dir-representation=" + tm, "dorder=" + case["dg"]["order"], "wind=%s" % case["with_wind"], "depth=%s" % case["with_depth"], "latlon_time=%s" % case["latlon_time"])
    ctx.show(dict(model=m, times=case["nt"], sites=case["ns"], grid=[len(T["f"]), len(T["d"])], d_first=[float(x) for x in T["d"][:3]], native_vars=list(nds.data_vars)))


@st.composite
def ndbc_case(draw):
    fg = draw(gen.freq_grid(2, 12))
    nt = draw(st.integers(1, 3))
    nf = len(fg["f"])
    n = nt * nf
    return dict(fg=fg, nt=nt, ef=[round(draw(st.floats(0.0, 5.0)), 4) for _ in range(n)], a1=[round(draw(st.floats(0, 359.9)), 2) for _ in range(n)], a2=[round(draw(st.floats(0, 359.9)), 2) for _ in range(n)],
                r1=[round(draw(st.floats(0, 0.95)), 3) for _ in range(n)], r2=[round(draw(st.floats(0, 0.6)), 3) for _ in range(n)], directional=draw(st.sampled_from([True, True, False])),
                has_dir_vars=draw(st.sampled_from([True, True, False])), dd=draw(st.sampled_from([5.0, 10.0, 20.0, 30.0, 45.0])), alt=draw(st.booleans()))


def check_ndbc(case, ctx):
    from wavespectra.input.dataset import read_dataset

    f = np.array(case["fg"]["f"])
    shp = (case["nt"], len(f))
    ef, a1, a2, r1, r2 = (np.array(case[k], dtype=float).reshape(shp) for k in ("ef", "a1", "a2", "r1", "r2"))
    nds = native.ndbc(ef, f, a1, a2, r1, r2, directional=case["has_dir_vars"], alt_names=case["alt"])
    from wavespectra.input.ndbc import from_ndbc

    with ctx.lib("read_dataset(ndbc layout, directional=%s, dd=%r)" % (case["directional"], case["dd"])):
        # the dispatcher keys on the THREDDS names; the alternative (waveFrequency, ...) naming is only known to from_ndbc
        fn = from_ndbc if case["alt"] else read_dataset
        out = fn(nds, directional=case["directional"], dd=case["dd"]).compute()
    if "efth" not in out or "freq" not in out.efth.dims:
        raise Violation("dispatch", "read_dataset(ndbc) returned %s" % list(out.data_vars))
    two_d = case["directional"] and case["has_dir_vars"]
    e = out.efth.squeeze(drop=True)
    if two_d:
        if "dir" not in e.dims:
            raise Violation("no-dir", "directional data present but the spectrum has no dir dimension")
        dirs = np.asarray(e.dir.values, dtype=float)
        if not np.allclose(dirs, np.arange(0, 360, case["dd"])):
            raise Violation("dirs", "directions %s for dd=%r" % (dirs[:5], case["dd"]))
        v = np.asarray(e.transpose(*[d for d in ("time", "freq", "dir") if d in e.dims]).values, dtype=float).reshape(shp + (len(dirs),))
        want = ef[..., None] * (0.5 + r1[..., None] * np.cos(np.radians(dirs - a1[..., None])) + r2[..., None] * np.cos(2 * np.radians(dirs - a2[..., None]))) / math.pi * (math.pi / 180.0)
        if not np.allclose(v, want, rtol=1e-9, atol=1e-12):
            raise Violation("ndbc-2d", "2D reconstruction differs from E(f) D(theta) with D = (1/2 + r1 cos(th-a1) + r2 cos 2(th-a2))/pi per radian")
        integ = v.sum(axis=-1) * case["dd"]
        if len(dirs) >= 3 and not np.allclose(integ, ef, rtol=1e-9, atol=1e-12):
            raise Violation("ndbc-integral", "integrating the 2D spectrum over direction gives %s, the file's E(f) is %s" % (integ.ravel()[:3], ef.ravel()[:3]))
    else:
        if "dir" in e.dims:
            raise Violation("unexpected-dir", "1D requested / no directional data but a dir dimension was returned")
        v = np.asarray(e.transpose(*[d for d in ("time", "freq") if d in e.dims]).values, dtype=float).reshape(shp)
        if not np.array_equal(v, ef):
            raise Violation("ndbc-1d", "1D spectrum differs from the file's spectral_wave_density")
    ctx.nt(two_d and bool(np.any(ef > 0)))
    ctx.label("directional=%s" % case["directional"], "dirvars=%s" % case["has_dir_vars"], "dd=%r" % case["dd"], "altnames=%s" % case["alt"])
    ctx.show(dict(nt=case["nt"], nf=len(f), dd=case["dd"], directional=case["directional"], has_dir_vars=case["has_dir_vars"]))


@st.composite
def uv_case(draw):
    return dict(spd=[round(draw(st.floats(0.01, 60.0)), 3) for _ in range(4)], ang=[round(draw(st.floats(0, 359.99)), 3) for _ in range(4)], coming=draw(st.booleans()))


def check_uv(case, ctx):
    from wavespectra.core.utils import uv_to_spddir

    spd, ang = np.array(case["spd"]), np.array(case["ang"])
    # components of a vector with the given speed whose direction `ang` is coming-from / going-to (nautical)
    going = np.deg2rad(ang + (180.0 if case["coming"] else 0.0))
    u, v = spd * np.sin(going), spd * np.cos(going)
    with ctx.lib("uv_to_spddir"):
        s2, a2 = uv_to_spddir(u, v, coming_from=case["coming"])
    d = np.abs(np.asarray(a2) - ang) % 360.0
    if not np.allclose(s2, spd, rtol=1e-12) or not np.all(np.minimum(d, 360 - d) < 1e-8):
        raise Violation("uv", "uv_to_spddir(coming_from=%s): speed %s dir %s, given %s %s" % (case["coming"], s2, a2, spd, ang))
    if np.any(np.asarray(a2) < 0) or np.any(np.asarray(a2) >= 360.0 + 1e-9):
        raise Violation("uv-range", "direction outside [0,360): %s" % a2)
    ctx.nt(True)
    ctx.show(dict(spd=case["spd"], ang=case["ang"], coming_from=case["coming"]))


def facets():
    return [
        Facet("ww3", native_case("ww3"), check_native, quick=600, thorough=16000, qshards=2),
        Facet("ncswan", native_case("ncswan"), check_native, quick=600, thorough=16000, qshards=2),
        Facet("wwm", native_case("wwm"), check_native, quick=600, thorough=16000, qshards=2),
        Facet("era5", native_case("era5"), check_native, quick=600, thorough=16000, qshards=2),
        Facet("ndbc", ndbc_case(), check_ndbc, quick=800, thorough=16000, qshards=2),
        Facet("uv", uv_case(), check_uv, quick=300, thorough=10000),
    ]
