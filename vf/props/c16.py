"""C16 - smoothing is a local (circular) average that keeps the grid."""
import numpy as np
from hypothesis import strategies as st

from .. import gen
from ..core import Facet, Violation

PROP = "C16"
RULE = (
    "A case is (dataset with 0-2 leading dims; 1..12 frequencies; a full-circle direction grid with whole- or "
    "dyadic-degree spacing stored ascending, rolled or descending, or a partial uniform grid obtained by dropping a run "
    "of bins; odd windows drawn independently per dimension from 1 up to the grid size; even windows for the rejection "
    "clause). Oracle: an explicit-loop box filter (circular in direction iff the grid covers the circle): dims / coords / "
    "order kept, every output inside [min,max] of the input over its window neighbourhood, equal to the window mean "
    "wherever the whole window fits, (1,1) is the identity, even windows raise ValueError, and smoothing commutes with "
    "circular shifts of the direction axis on full circles. Non-trivial = a window > 1 in a dimension with more bins "
    "than the window and energy in the first or last direction bin; distinct by canonical hash."
)
ASSUMPTIONS = [
    "direction spacing restricted to exactly representable values, as in the property (the routine keys on float32 labels)",
    "float32 data compared at 2e-5 of the spectrum maximum, float64 at 1e-12",
]


@st.composite
def smooth_case(draw):
    fg = draw(gen.freq_grid(1, 12))
    dg = draw(gen.dir_grid(2, 24, spacing=("whole", "dyadic")))
    partial = draw(st.integers(0, 3)) == 0 and dg["n"] >= 4 and dg["spacing"] == "whole"
    drop = draw(st.integers(1, dg["n"] - 2)) if partial else 0
    dims = draw(gen.extra_dims(maxdims=2, maxsize=3))
    npos = int(np.prod([n for _, n in dims])) if dims else 1
    specs = [draw(gen.spectrum(kinds=("multinoisy", "multi", "sparse", "constant", "plateau", "single_bin", "zero"))) for _ in range(min(npos, 3))]
    nf, nd = len(fg["f"]), dg["n"] - drop
    fw = draw(st.sampled_from([w for w in range(1, max(nf, 1) + 1, 2)]))
    dw = draw(st.sampled_from([w for w in range(1, max(nd, 1) + 1, 2)]))
    return dict(fg=fg, dg=dg, dims=dims, specs=specs, dtype=draw(st.sampled_from(["float64", "float32"])), lived=draw(gen.lived()), perm=draw(gen.perms()), fw=fw, dw=dw, drop=drop,
                drop_at=draw(st.integers(0, dg["n"] - 1)), shift=draw(st.integers(1, max(1, dg["n"] - 1))), even=draw(st.sampled_from([None, None, None, "freq", "dir", "both"])))


def build(case):
    da = gen.build_dataarray(case["fg"], case["dg"], case["specs"], case["dims"], dtype=case["dtype"], lived=case.get("lived"), perm=case.get("perm"))
    if case["drop"]:
        asc = sorted(case["dg"]["d"])
        n = len(asc)
        gone = {asc[(case["drop_at"] + k) % n] for k in range(case["drop"])}
        # keep a contiguous (non-wrapping) run so the remaining grid is uniform
        keep = [d for d in case["dg"]["d"] if d not in gone]
        ks = sorted(keep)
        if len(ks) >= 2 and not np.allclose(np.diff(ks), ks[1] - ks[0]):
            # the dropped run wrapped: drop from the start instead
            gone = set(asc[: case["drop"]])
            keep = [d for d in case["dg"]["d"] if d not in gone]
        da = da.sel(dir=keep)
        da = da.copy(data=np.ascontiguousarray(da.values))
    return da


def ref_smooth(E, dirs, fw, dw, circular):
    """E[f, d] with direction labels dirs (any order). Returns (mean where window fits else None-mask, lo, hi)."""
    nf, nd = E.shape
    order = np.argsort(dirs)
    A = E[:, order]
    out = np.array(A, dtype=float)
    fits = np.zeros((nf, nd), dtype=bool)
    lo = np.empty((nf, nd))
    hi = np.empty((nf, nd))
    hf, hd = fw // 2, dw // 2
    for i in range(nf):
        for j in range(nd):
            fi = [k for k in range(i - hf, i + hf + 1)]
            dj = [k for k in range(j - hd, j + hd + 1)]
            f_ok = all(0 <= k < nf for k in fi)
            d_ok = circular or all(0 <= k < nd for k in dj)
            vals = [A[k, (m % nd)] for k in fi if 0 <= k < nf for m in dj if circular or 0 <= m < nd]
            lo[i, j], hi[i, j] = min(vals), max(vals)
            if f_ok and d_ok:
                fits[i, j] = True
                out[i, j] = sum(A[k, m % nd] for k in fi for m in dj) / float(fw * dw)
    inv = np.argsort(order)
    return out[:, inv], fits[:, inv], lo[:, inv], hi[:, inv]


def check_smooth(case, ctx):
    from .c01 import _positions

    da = build(case)
    fw, dw = case["fw"], case["dw"]
    if case["even"]:
        efw = fw + 1 if case["even"] in ("freq", "both") else fw
        edw = dw + 1 if case["even"] in ("dir", "both") else dw
        try:
            da.spec.smooth(freq_window=efw, dir_window=edw)
        except ValueError:
            ctx.label("even-rejected")
        except Exception as e:  # noqa: BLE001
            raise Violation("even-window", "even window (%d,%d) raised %s instead of ValueError" % (efw, edw, type(e).__name__))
        else:
            raise Violation("even-window", "even window (%d,%d) was accepted" % (efw, edw))
    dirs = np.asarray(da.dir.values, dtype=float)
    nd = len(dirs)
    ds = np.sort(dirs)
    dd = ds[1] - ds[0] if nd > 1 else 360.0
    circular = nd > 1 and abs(ds[-1] - ds[0] + dd - 360.0) < 0.1 * dd
    given = {c: (np.array(da[c].values), da[c].dtype) for c in da.coords}  # the coordinates as handed over
    with ctx.lib("spec.smooth(%d,%d)" % (fw, dw)):
        out = da.spec.smooth(freq_window=fw, dir_window=dw).compute()
    if tuple(out.dims) != tuple(da.dims):
        raise Violation("dims", "dims %s became %s" % (da.dims, out.dims))
    for c, (vals, dt) in given.items():
        if c not in out.coords or not np.array_equal(np.asarray(out[c].values), vals) or out[c].dtype != dt:
            raise Violation("coords", "coordinate %s changed: %s (%s) -> %s (%s)" % (c, vals[:5], dt, out[c].values[:5] if c in out.coords else None, out[c].dtype if c in out.coords else None))
        if not np.array_equal(np.asarray(da[c].values), vals) or da[c].dtype != dt:
            raise Violation("coords", "smoothing changed coordinate %s of the spectra it was given: %s (%s) -> %s (%s)" % (c, vals[:5], dt, da[c].values[:5], da[c].dtype))
    tol = 1e-12 if case["dtype"] == "float64" else 2e-5
    if fw == 1 and dw == 1 and not np.array_equal(out.values, da.values):
        raise Violation("identity", "window (1,1) changed the spectrum")
    edge = False
    for (lead, idx, E), (_, _, O) in zip(_positions(da, True), _positions(out, True)):
        want, fits, lo, hi = ref_smooth(E, dirs, fw, dw, circular)
        scale = max(np.abs(E).max(), 1e-300)
        if np.any(np.isnan(O)):
            raise Violation("nan", "NaN in smoothed spectrum at %s" % (dict(zip(lead, idx)),))
        if np.any(O < lo - tol * scale) or np.any(O > hi + tol * scale):
            i, j = np.argwhere((O < lo - tol * scale) | (O > hi + tol * scale))[0]
            raise Violation("local-bounds", "bin (%d, dir=%r): %r outside [%r, %r] of its window neighbourhood at %s" % (i, dirs[j], O[i, j], lo[i, j], hi[i, j], dict(zip(lead, idx))))
        bad = fits & (np.abs(O - want) > tol * scale)
        if np.any(bad):
            i, j = np.argwhere(bad)[0]
            raise Violation("window-mean", "bin (%d, dir=%r): %r, window mean %r (windows %d,%d, circular=%s) at %s" % (i, dirs[j], O[i, j], want[i, j], fw, dw, circular, dict(zip(lead, idx))))
        order = np.argsort(dirs)
        if np.any(E[:, order[0]] > 0) or np.any(E[:, order[-1]] > 0):
            edge = True
    # commutation with circular shifts (by label: shifting the data along the sorted circle)
    if circular and nd > 1:
        k = case["shift"] % nd
        if k:
            order = np.argsort(dirs)
            inv = np.argsort(order)
            core = da.transpose(..., "freq", "dir")
            v = core.values[..., order]
            rolled = np.roll(v, k, axis=-1)[..., inv]
            db = core.copy(data=np.ascontiguousarray(rolled))
            with ctx.lib("spec.smooth on shifted data"):
                ob = db.spec.smooth(freq_window=fw, dir_window=dw).compute().transpose(..., "freq", "dir")
            oa = out.transpose(..., "freq", "dir").values[..., order]
            obv = ob.values[..., order]
            scale = max(np.abs(v).max(), 1e-300)
            if not np.all(np.abs(np.roll(oa, k, axis=-1) - obv) <= max(tol, 1e-12) * scale):
                raise Violation("shift-commutation", "smoothing does not commute with a circular shift by %d bins (windows %d,%d)" % (k, fw, dw))
            ctx.evals += 1
    nf = len(case["fg"]["f"])
    ctx.nt(((fw > 1 and nf > fw) or (dw > 1 and nd > dw)) and edge)
    ctx.label("circular" if circular else "partial", "dorder=" + case["dg"]["order"], "fw=%s" % ("1" if fw == 1 else ">1"), "dw=%s" % ("1" if dw == 1 else ">1"), "dtype=" + case["dtype"])
    ctx.show(gen.describe(case["fg"], case["dg"], case["specs"], case["dims"], fw=fw, dw=dw, circular=bool(circular), ndir=nd))


def facets():
    return [Facet("smooth", smooth_case(), check_smooth, quick=1500, thorough=40000, qshards=8)]
