"""C01 - integrated wave parameters equal their defining spectral integrals."""
import math

import numpy as np
from hypothesis import strategies as st

from .. import core, gen
from ..core import Enumeration, Facet, Violation
from ..ref import stats as R

PROP = "C01"
RULE = (
    "A case is (frequency grid: 1..16 log/uniform/irregular, fmax either side of 0.333 Hz; direction grid: 1..24 "
    "uniform full-circle directions stored ascending, rolled (seam anywhere) or descending, or none for 1D spectra; "
    "0-3 leading dims; float32/float64; spectrum kinds smooth/noisy/plateau/sparse/monotone/constant/zero/single-bin/"
    "12-decade; depth None or 0.5..5000 m). Every statistic of the accessor is compared, position by position, with "
    "an independent float64 bin-by-bin evaluation of its published definition. Non-trivial = at least two frequencies "
    "and two directions carry energy; distinct by canonical hash of the case. The dispersion facet sweeps a "
    "frequency x depth lattice against an exact Newton solution of w^2 = g k tanh(kh)."
)
ASSUMPTIONS = [
    "published definitions as quoted in the specarray docstrings / docs (Hm0 with 0.25*E(fN)*fN tail above 0.333 Hz, Kuik spread, Bunney gw = sqrt(m0/Tz^2 - m0^2/Tm^2))",
    "bin widths: centred differences (one-sided at the ends, 1 for a single frequency); 360/n for n uniform full-circle directions, 1 for a single direction",
    "tolerance 1e-9 relative for float64 data and 2e-5 for float32 data (the library reduces float32 over direction in float32), scaled by the conditioning of differences / arctangents; cases whose conditioning exceeds 1e6 are only checked for not raising",
    "g = 9.81 m/s2 in the dispersion relation (the value behind the library's own constants 0.10194 = 1/9.81 and 1.56); with it the Chen-Thomson approximation stays within 7.9e-4",
    "mean direction on non-uniformly spaced frequencies is a recorded known finding (unweighted frequency sum); there the weaker relation that holds is asserted",
]

KEY_DM = "dm-unweighted-nonuniform-df"


@st.composite
def stat_case(draw, nfmax=16, ndmax=24):
    fg = draw(gen.freq_grid(1, nfmax))
    oned = draw(st.integers(0, 9)) == 0
    dg = None if oned else draw(gen.dir_grid(1, ndmax))
    dims = draw(gen.extra_dims(maxsize=3))
    npos = int(np.prod([n for _, n in dims])) if dims else 1
    specs = [draw(gen.spectrum()) for _ in range(min(npos, 3))]
    dtype = draw(st.sampled_from(["float64", "float32"]))
    depth = draw(st.one_of(st.none(), st.sampled_from([0.5, 3.0, 12.0, 40.0, 200.0, 5000.0]), st.floats(0.5, 5000.0)))
    # one case in four: the object first holds other coordinates/values, statistics are taken, then it is edited in place
    warm = draw(st.one_of(st.none(), st.none(), st.none(), st.fixed_dictionaries(dict(
        fs=st.sampled_from([0.5, 0.8, 1.25, 2.0, "sq"]), ds=st.floats(1.0, 359.0), amp=st.sampled_from([1.0, 3.0])))))
    theta = draw(st.one_of(st.none(), st.sampled_from([0.0, 45.0, 180.0, 270.0]), st.floats(-360.0, 720.0)))
    return dict(fg=fg, dg=dg, dims=dims, specs=specs, dtype=dtype, depth=depth, warm=warm, theta=theta, perm=draw(gen.perms()))


def _close(lib, ref, rtol, atol=0.0):
    if math.isnan(ref):
        return math.isnan(lib)
    if math.isnan(lib) or math.isinf(lib):
        return False
    return abs(lib - ref) <= atol + rtol * max(abs(ref), abs(lib))


def _angle_close(lib, ref, tol_deg):
    if math.isnan(ref):
        return math.isnan(lib)
    if math.isnan(lib):
        return False
    d = abs(lib - ref) % 360.0
    return min(d, 360.0 - d) <= tol_deg


def _uniform_df(f):
    if len(f) < 3:
        return True
    d = np.diff(np.asarray(f, dtype=float))
    return bool(np.all(np.abs(d - d[0]) <= 1e-9 * abs(d[0])))


def _positions(da, has_dir):
    """Yield (index tuple, 2D float64 array [freq, dir]) for every non-spectral position."""
    core_dims = ["freq"] + (["dir"] if has_dir else [])
    lead = [d for d in da.dims if d not in core_dims]
    arr = da.transpose(*lead, *core_dims).values
    shape = arr.shape[: len(lead)]
    for idx in np.ndindex(*shape) if shape else [()]:
        yield lead, idx, np.asarray(arr[idx], dtype=np.float64)


_CACHE = {}


def _at(res, lead, idx):
    """Value of a library result at a position (result dims are a subset of lead + spectral dims)."""
    if not hasattr(res, "dims"):
        return np.asarray(res)
    key = id(res)
    hit = _CACHE.get(key)
    if hit is None or hit[0] is not res:
        mine = [d for d in lead if d in res.dims]
        rest = [d for d in res.dims if d not in lead]
        hit = (res, mine, np.asarray(res.transpose(*mine, *rest).values))
        if len(_CACHE) > 64:
            _CACHE.clear()
        _CACHE[key] = hit
    _, mine, arr = hit
    sel = tuple(i for d, i in zip(lead, idx) if d in mine)
    return arr[sel] if sel else arr


def check_stats(case, ctx):
    import xarray as xr  # noqa: F401

    fg, dg, dims, specs, dtype, depth = case["fg"], case["dg"], case["dims"], case["specs"], case["dtype"], case["depth"]
    da = gen.build_dataarray(fg, dg, specs, dims, dtype=dtype, perm=case.get("perm"))
    if case.get("perm") is not None:
        ctx.label("dims-stored-in-another-order")
    has_dir = dg is not None
    f = np.array(fg["f"])
    dirs = np.array(dg["d"]) if has_dir else None
    rt = 1e-9 if dtype == "float64" else 2e-5
    ctx.label("dtype=" + dtype, "nf=%s" % ("1" if len(f) == 1 else "2" if len(f) == 2 else "3+"), "tail=" + fg["tail"], "fkind=" + fg["kind"])
    if has_dir:
        ctx.label("nd=%s" % ("1" if dg["n"] == 1 else "2" if dg["n"] == 2 else "3+"), "dorder=" + dg["order"])
        if dg["order"] == "rolled" and dg["roll"] == 1:
            ctx.label("seam-between-first-two")
    else:
        ctx.label("1D")
    ctx.label("ndims=%d" % len(dims), "depth=%s" % ("none" if depth is None else "finite"))
    warm = case.get("warm")
    if warm:
        # "the dataset's own bin widths" are those of its current coordinates: take statistics while the object holds
        # other frequencies/directions/values, then put the real ones in place on the same object
        real = (da.freq.values.copy(), da.dir.values.copy() if has_dir else None, da.values.copy())
        if len(f) > 1:
            da["freq"] = real[0] ** 2 / real[0][0] if warm["fs"] == "sq" else real[0] * warm["fs"]
        if has_dir:
            da["dir"] = (real[1] + warm["ds"]) % 360.0
        da.values = real[2] * warm["amp"]
        with ctx.lib("statistics before the in-place edit"):
            for m in ("hs", "tm01", "tm02", "sw", "mss") + (("dm", "dspr", "uss", "crsd") if has_dir else ()):
                np.asarray(getattr(da.spec, m)())
        da["freq"] = real[0]
        if has_dir:
            da["dir"] = real[1]
        da.values = real[2]
        ctx.label("after-in-place-edit")
    sp = da.spec
    lib = {}
    calls = {
        "hs": lambda: sp.hs(), "hs_notail": lambda: sp.hs(tail=False), "hrms": lambda: sp.hrms(), "hrms_notail": lambda: sp.hrms(tail=False),
        "tm01": lambda: sp.tm01(), "tm02": lambda: sp.tm02(), "swe": lambda: sp.swe(), "sw": lambda: sp.sw(),
        "gw": lambda: sp.gw(), "goda": lambda: sp.goda(), "mss": lambda: sp.mss(depth=depth),
        "oned": lambda: sp.oned(), "to_energy": lambda: sp.to_energy(), "hmax": lambda: sp.hmax(),
    }
    for n in range(5):
        calls["momf%d" % n] = (lambda n=n: sp.momf(n))
    if has_dir:
        calls.update({
            "dm": lambda: sp.dm(), "dspr": lambda: sp.dspr(), "uss_x": lambda: sp.uss_x(depth=depth),
            "uss_y": lambda: sp.uss_y(depth=depth), "uss": lambda: sp.uss(depth=depth), "momd1": lambda: sp.momd(1),
            "momd2": lambda: sp.momd(2), "momd0": lambda: sp.momd(0), "crsd": lambda: sp.crsd(), "fdspr": lambda: sp.fdspr(),
        })
    theta = case.get("theta") if has_dir else None
    if theta is not None:
        # the documented angle offset of the directional moments / drift components, and the spread of another order
        calls.update({
            "momd1_theta": lambda: sp.momd(1, theta=theta), "crsd_theta": lambda: sp.crsd(theta=theta),
            "uss_x_theta": lambda: sp.uss_x(depth=depth, theta=theta), "uss_y_theta": lambda: sp.uss_y(depth=depth, theta=theta),
            "fdspr2": lambda: sp.fdspr(mom=2),
        })
        ctx.label("theta-offset")
    for name, fn in calls.items():
        with ctx.lib("spec.%s" % name):
            lib[name] = fn()
    uniform = _uniform_df(f)
    dm_known = KEY_DM in core.finding_keys(PROP) and not getattr(ctx, "replaying", False)
    ktol = 1.2e-3  # uss is linear in k: the documented 0.1 % dispersion band
    nt = False
    excluded_dm = False
    tdim = dict(dims).get("time", 0)
    for lead, idx, E in _positions(da, has_dir):
        ref = R.Spec(E, f, dirs)
        m0 = ref.momf(0)
        energetic_f = int(np.sum(ref.S > 0))
        energetic_d = int(np.sum(E.sum(axis=0) > 0)) if has_dir else 0
        if energetic_f >= 2 and energetic_d >= 2:
            nt = True

        def val(name):
            return float(_at(lib[name], lead, idx))

        def need(name, ok, refv):
            if not ok:
                raise Violation(name, "position %s: library %r, defining integral %r (grid nf=%d nd=%s order=%s dtype=%s)" % (
                    dict(zip(lead, idx)), val(name), refv, len(f), dg["n"] if has_dir else None, dg["order"] if has_dir else None, dtype))

        need("hs", _close(val("hs"), ref.hs(), rt), ref.hs())
        need("hs_notail", _close(val("hs_notail"), ref.hs(tail=False), rt), ref.hs(tail=False))
        need("hrms", _close(val("hrms"), ref.hrms(), rt), ref.hrms())
        need("hrms_notail", _close(val("hrms_notail"), ref.hrms(tail=False), rt), ref.hrms(tail=False))
        for n in range(5):
            need("momf%d" % n, _close(val("momf%d" % n), ref.momf(n), rt), ref.momf(n))
        if m0 > 0:
            need("tm01", _close(val("tm01"), ref.tm01(), 2 * rt), ref.tm01())
            need("tm02", _close(val("tm02"), ref.tm02(), 2 * rt), ref.tm02())
            need("goda", _close(val("goda"), ref.goda(), 4 * rt), ref.goda())
        else:
            ctx.label("zero-energy-position")
            for name in ("tm01", "tm02"):
                if not (math.isnan(val(name)) or math.isinf(val(name))):
                    raise Violation(name, "zero-energy spectrum gave %r, the ratio of moments is undefined" % val(name))
        # oned / to_energy (arrays)
        o = np.asarray(_at(lib["oned"], lead, idx), dtype=float).reshape(-1)
        if not np.allclose(o, ref.S, rtol=rt, atol=0):
            raise Violation("oned", "direction-integrated spectrum differs: %s vs %s" % (o[:6], ref.S[:6]))
        te = lib["to_energy"]
        core_dims = ["freq"] + (["dir"] if has_dir else [])
        tev = np.asarray(te.transpose(*lead, *core_dims).values[idx], dtype=float).reshape(ref.E.shape)
        if not np.allclose(tev, ref.to_energy(), rtol=max(rt, 1e-7 if dtype == "float32" else rt), atol=0):
            raise Violation("to_energy", "E*df*dd differs")
        # widths: compare radicands with an absolute tolerance relative to the minuend
        if m0 > 0:
            rad = ref.sw_radicand()
            lv = val("sw")
            if ref.hs() < 0.001:
                if not math.isnan(lv):
                    raise Violation("sw", "Hs below 1 mm must be masked, got %r" % lv)
            elif ref.hs() > 0.001 * (1 + 1e-6):
                _cmp_radicand("sw", lv, rad, 1.0 + abs(rad), 8 * rt, lead, idx)
            rad = ref.swe_radicand()
            lv = val("swe")
            tol = 8 * rt * (1.0 + abs(rad))
            if not math.isnan(rad):
                if rad > 1e-6 + tol and math.sqrt(rad) >= 0.001:
                    _cmp_radicand("swe", lv, rad, 1.0 + abs(rad), 8 * rt, lead, idx)
                elif not (math.isnan(lv) or lv == 1.0 or lv * lv <= rad + 1e-6 + 2 * tol):
                    raise Violation("swe", "degenerate width: library %r, radicand %r" % (lv, rad))
            rad, scale = ref.gw_radicand()
            if not math.isnan(rad):
                _cmp_radicand("gw", val("gw"), rad, scale, 12 * rt, lead, idx)
        if has_dir:
            ms, mc, mabs = ref.momd1()
            lms = np.asarray(_at(lib["momd1"][0], lead, idx), dtype=float).reshape(-1)
            lmc = np.asarray(_at(lib["momd1"][1], lead, idx), dtype=float).reshape(-1)
            if not (np.all(np.abs(lms - ms) <= 4 * rt * mabs + 1e-300) and np.all(np.abs(lmc - mc) <= 4 * rt * mabs + 1e-300)):
                raise Violation("momd", "first directional moments differ from sum E sin/cos(270-theta) dd")
            # higher directional moments, cross term and per-frequency spread
            ang = np.radians(180.0 + 90.0 - dirs)
            for mom, key in ((0, "momd0"), (2, "momd2")):
                ws_, wc_ = np.sin(ang) ** mom, np.cos(ang) ** mom
                rs_ = np.array([math.fsum((E[i] * ws_).tolist()) for i in range(len(f))]) * ref.dd
                rc_ = np.array([math.fsum((E[i] * wc_).tolist()) for i in range(len(f))]) * ref.dd
                l_s = np.asarray(_at(lib[key][0], lead, idx), dtype=float).reshape(-1)
                l_c = np.asarray(_at(lib[key][1], lead, idx), dtype=float).reshape(-1)
                if not (np.all(np.abs(l_s - rs_) <= 4 * rt * mabs + 1e-300) and np.all(np.abs(l_c - rc_) <= 4 * rt * mabs + 1e-300)):
                    raise Violation("momd%d" % mom, "directional moment of order %d differs from sum E sin^n/cos^n(270-theta) dd" % mom)
            rcr = np.array([math.fsum((E[i] * np.sin(ang) * np.cos(ang)).tolist()) for i in range(len(f))]) * ref.dd
            lcr = np.asarray(_at(lib["crsd"], lead, idx), dtype=float).reshape(-1)
            if not np.all(np.abs(lcr - rcr) <= 4 * rt * mabs + 1e-300):
                raise Violation("crsd", "cross directional moment differs from sum E sin cos dd")
            lfd = np.asarray(_at(lib["fdspr"], lead, idx), dtype=float).reshape(-1)
            for i in range(len(f)):
                if ref.S[i] > 0:
                    radi = 1.0 - math.hypot(ms[i], mc[i]) / ref.S[i]
                    _cmp_radicand("fdspr", float(lfd[i]), 2.0 * R.R2D**2 * radi, 4.0 * R.R2D**2, 8 * rt, lead, idx)
            if theta is not None:
                angt = np.radians(180.0 + theta - dirs)
                st_, ct_ = np.sin(angt), np.cos(angt)
                rs_ = np.array([math.fsum((E[i] * st_).tolist()) for i in range(len(f))]) * ref.dd
                rc_ = np.array([math.fsum((E[i] * ct_).tolist()) for i in range(len(f))]) * ref.dd
                rx_ = np.array([math.fsum((E[i] * st_ * ct_).tolist()) for i in range(len(f))]) * ref.dd
                l_s = np.asarray(_at(lib["momd1_theta"][0], lead, idx), dtype=float).reshape(-1)
                l_c = np.asarray(_at(lib["momd1_theta"][1], lead, idx), dtype=float).reshape(-1)
                l_x = np.asarray(_at(lib["crsd_theta"], lead, idx), dtype=float).reshape(-1)
                tol_ = 4 * rt * mabs + 1e-300
                if not (np.all(np.abs(l_s - rs_) <= tol_) and np.all(np.abs(l_c - rc_) <= tol_)):
                    raise Violation("momd-theta", "momd(1, theta=%r) differs from sum E sin/cos(180+theta-dir) dd" % theta)
                if not np.all(np.abs(l_x - rx_) <= tol_):
                    raise Violation("crsd-theta", "crsd(theta=%r) differs from sum E sin cos(180+theta-dir) dd" % theta)
                kk = ref.k(depth)
                wgt = ref.dd * 4.0 * math.pi * ref.f * kk * ref.df
                xt, yt, tt = float(np.sum(wgt * rc_ / ref.dd)), float(np.sum(wgt * rs_ / ref.dd)), float(np.sum(wgt * mabs / ref.dd))
                tolk_ = (4 * rt) if depth is None else ktol
                for name_, refv_ in (("uss_x_theta", xt), ("uss_y_theta", yt)):
                    if abs(val(name_) - refv_) > tolk_ * abs(tt) + 1e-300:
                        raise Violation(name_, "position %s: library %r vs integral %r (depth=%r, theta=%r)" % (dict(zip(lead, idx)), val(name_), refv_, depth, theta))
                # fdspr(mom=2): the documented m-th spread built from momd(mom)
                ang2 = np.radians(180.0 + 90.0 - dirs)
                s2 = np.array([math.fsum((E[i] * np.sin(ang2) ** 2).tolist()) for i in range(len(f))]) * ref.dd
                c2 = np.array([math.fsum((E[i] * np.cos(ang2) ** 2).tolist()) for i in range(len(f))]) * ref.dd
                lf2 = np.asarray(_at(lib["fdspr2"], lead, idx), dtype=float).reshape(-1)
                for i in range(len(f)):
                    if ref.S[i] > 0:
                        _cmp_radicand("fdspr2", float(lf2[i]), 2.0 * R.R2D**2 * (1.0 - math.hypot(s2[i], c2[i]) / ref.S[i]), 4.0 * R.R2D**2, 8 * rt, lead, idx)
            if m0 > 0:
                dmw, condw = ref.dm(weighted=True)
                dmu, condu = ref.dm(weighted=False)
                lv = val("dm")
                if uniform or len(f) == 1:
                    if condw < 1e6:
                        need("dm", _angle_close(lv, dmw, R.R2D * 8 * rt * condw + 1e-9), dmw)
                    else:
                        ctx.label("dm-ill-conditioned")
                else:
                    if dm_known:
                        excluded_dm = True
                        if condu < 1e6:
                            need("dm", _angle_close(lv, dmu, R.R2D * 8 * rt * condu + 1e-9), ("unweighted", dmu))
                    elif condw < 1e6 and condu < 1e6:
                        need("dm", _angle_close(lv, dmw, R.R2D * 8 * rt * max(condw, condu) + 1e-9), dmw)
                if not math.isnan(lv) and not (0.0 <= lv < 360.0):
                    raise Violation("dm-range", "dm=%r" % lv)
                rad, e = ref.dspr_radicand()
                lv = val("dspr")
                want = 2.0 * R.R2D**2 * rad
                _cmp_radicand("dspr", lv, want, 2.0 * R.R2D**2 * 2.0, 8 * rt, lead, idx)
            x, y, tot = ref.uss_components(depth)
            tolk = (4 * rt) if depth is None else ktol
            for name, refv in (("uss_x", x), ("uss_y", y), ("uss", tot)):
                if abs(val(name) - refv) > tolk * abs(tot) + 1e-300:
                    raise Violation(name, "position %s: library %r vs integral %r (depth=%r)" % (dict(zip(lead, idx)), val(name), refv, depth))
        mref = ref.mss(depth)
        if abs(val("mss") - mref) > ((4 * rt) if depth is None else 2.1 * ktol) * abs(mref) + 1e-300:
            raise Violation("mss", "library %r vs integral %r (depth=%r)" % (val("mss"), mref, depth))
        # hmax
        if m0 > 0:
            hm = val("hmax")
            if tdim > 1:
                ratio = 10800.0 / ref.tm02()
                frac = ratio - math.floor(ratio)
                if abs(frac - 0.5) > 1e-6 and ratio >= 1.5:
                    N = round(ratio)
                    need("hmax", _close(hm, math.sqrt(0.5 * math.log(N)) * ref.hs(), 4 * rt), math.sqrt(0.5 * math.log(N)) * ref.hs())
            else:
                need("hmax", _close(hm, 1.86 * ref.hs(), 2 * rt), 1.86 * ref.hs())
    # 1D spectrum obtained from the 2D one gives the same frequency-integrated values
    if has_dir:
        with ctx.lib("oned().spec.<stat>"):
            one = lib["oned"]
            pairs = [("hs", one.spec.hs()), ("tm01", one.spec.tm01()), ("tm02", one.spec.tm02()), ("momf2", one.spec.momf(2)),
                     ("goda", one.spec.goda()), ("swe", one.spec.swe()), ("mss", one.spec.mss(depth=depth)), ("hrms", one.spec.hrms())]
        for name, r1 in pairs:
            a = np.asarray(lib[name].values, dtype=float)
            b = np.asarray(r1.transpose(*lib[name].dims).values, dtype=float)
            if not np.allclose(a, b, rtol=4 * rt, atol=0, equal_nan=True):
                raise Violation("oned-consistency", "%s of x.spec.oned() differs from %s of x: %s vs %s" % (name, name, b.ravel()[:4], a.ravel()[:4]))
    if excluded_dm:
        ctx.label("dm-nonuniform-df(known finding: weaker relation asserted)")
        ctx.weaken(KEY_DM)
    ctx.nt(nt)
    ctx.show(gen.describe(fg, dg, specs, dims, dtype=dtype, depth=depth))


def _cmp_radicand(name, lv, rad, scale, rtol, lead, idx):
    """lv should be sqrt(rad); rad is a difference of terms of size `scale`."""
    tol = rtol * scale
    if math.isnan(rad):
        return
    if rad <= 4 * tol:
        # difference lost in rounding: NaN, or anything consistent with it
        if math.isnan(lv) or lv * lv <= rad + 8 * tol + 1e-300:
            return
        raise Violation(name, "position %s: library %r but radicand is %r (+-%g)" % (dict(zip(lead, idx)), lv, rad, tol))
    if math.isnan(lv) or abs(lv * lv - rad) > 4 * tol + 4e-16 * abs(rad):
        raise Violation(name, "position %s: library %r (squared %r), definition gives sqrt(%r)=%r" % (dict(zip(lead, idx)), lv, lv * lv if not math.isnan(lv) else lv, rad, math.sqrt(rad)))


# ------------------------------------------------------------------ dm on non-uniform grids (pinned finding)

def check_dm_full(case, ctx):
    """The full statement for dm (frequency sum weighted by the bin width) - replay target of the finding."""
    ctx.replaying = True
    check_stats(case, ctx)


# ------------------------------------------------------------------ dispersion relation

def disp_items(shard, nshards, tier):
    nf, nh = (60, 60) if tier == "quick" else (200, 200)
    fs = np.exp(np.linspace(math.log(0.005), math.log(5.0), nf))
    hs = np.exp(np.linspace(math.log(0.01), math.log(2e4), nh))
    for i, fv in enumerate(fs):
        if i % nshards != shard:
            continue
        yield dict(f=float(fv), depths=[float(h) for h in hs])


def check_disp(case, ctx):
    from wavespectra.core.utils import celerity, wavelen, wavenuma

    fv = case["f"]
    worst = 0.0
    for h in case["depths"]:
        with ctx.lib("wavenuma/celerity/wavelen"):
            k = float(wavenuma(fv, h))
            c = float(celerity(fv, h))
            L = float(wavelen(fv, h))
        kr = R.newton_k(fv, h)
        ctx.evals += 1
        for name, lv, rv in (("wavenuma", k, kr), ("celerity", c, 2 * math.pi * fv / kr), ("wavelen", L, 2 * math.pi / kr)):
            err = abs(lv - rv) / rv
            worst = max(worst, err)
            if not err <= 1e-3:
                raise Violation("dispersion", "%s(f=%r, h=%r) = %r, linear dispersion gives %r (rel err %.3g > 0.1%%)" % (name, fv, h, lv, rv, err))
    with ctx.lib("deep-water celerity/wavelen"):
        c0 = float(celerity(fv))
        l0 = float(wavelen(fv))
    if abs(c0 - 1.56 / fv) > 1e-15 * c0 or abs(l0 - 1.56 / (fv * fv)) > 1e-15 * l0:
        raise Violation("deep-water", "celerity(%r)=%r wavelen=%r, expected exactly 1.56/f, 1.56/f^2" % (fv, c0, l0))
    ctx.nt(True)
    ctx.label("worst-rel-err<%s" % ("5e-4" if worst < 5e-4 else "1e-3"))
    ctx.show(dict(f=fv, ndepths=len(case["depths"]), worst_rel_err=worst))


@st.composite
def acc_disp_case(draw):
    fg = draw(gen.freq_grid(1, 12))
    return dict(fg=fg, depth=draw(st.floats(0.01, 2e4)))


def check_acc_disp(case, ctx):
    """spec.celerity / spec.wavelen on a DataArray honour the same relation."""
    f = np.array(case["fg"]["f"])
    da = gen.build_dataarray(case["fg"], None, [dict(kind="constant", rs=0, amp=1.0)], [])
    h = case["depth"]
    with ctx.lib("spec.celerity/wavelen"):
        c = da.spec.celerity(depth=h).values
        L = da.spec.wavelen(depth=h).values
        c0 = da.spec.celerity().values
        L0 = da.spec.wavelen().values
    for i, fv in enumerate(f):
        kr = R.newton_k(float(fv), h)
        if abs(c[i] - 2 * math.pi * fv / kr) > 1e-3 * (2 * math.pi * fv / kr) or abs(L[i] - 2 * math.pi / kr) > 1e-3 * 2 * math.pi / kr:
            raise Violation("dispersion", "spec.celerity/wavelen off at f=%r h=%r" % (fv, h))
        if abs(c0[i] - 1.56 / fv) > 1e-15 * c0[i] or abs(L0[i] - 1.56 / (fv * fv)) > 1e-15 * L0[i]:
            raise Violation("deep-water", "spec.celerity()/wavelen() not exactly 1.56/f, 1.56/f^2 at f=%r" % fv)
    ctx.nt(len(f) >= 2)
    ctx.show(dict(f=case["fg"]["f"][:4], depth=h))


# ------------------------------------------------------------------ npstats twins

@st.composite
def np_case(draw):
    fg = draw(gen.freq_grid(2, 16))
    dg = draw(gen.dir_grid(2, 24, orders=("asc",)))
    return dict(fg=fg, dg=dg, spec=draw(gen.spectrum()), dtype=draw(st.sampled_from(["float64", "float32"])))


def check_np(case, ctx):
    from wavespectra.core import npstats

    f = np.array(case["fg"]["f"])
    d = np.array(case["dg"]["d"])
    E = gen.build_spectrum(case["spec"], len(f), len(d), dtype=np.dtype(case["dtype"]))
    rt = 1e-9 if case["dtype"] == "float64" else 2e-5
    with ctx.lib("npstats.hs/dm/mom1"):
        h = float(npstats.hs(E, f, d))
        h0 = float(npstats.hs(E, f, d, tail=False))
        ms, mc = npstats.mom1(E, d)
        dmv = float(npstats.dm(E, d))
    E64 = E.astype(np.float64)
    if not _close(h, R.np_hs(E64, f, d), rt) or not _close(h0, R.np_hs(E64, f, d, tail=False), rt):
        raise Violation("npstats.hs", "%r vs trapezoid %r" % (h, R.np_hs(E64, f, d)))
    ref = R.Spec(E64, f, d)
    rms, rmc, mabs = ref.momd1()
    if not (np.all(np.abs(ms - rms) <= 4 * rt * mabs + 1e-300) and np.all(np.abs(mc - rmc) <= 4 * rt * mabs + 1e-300)):
        raise Violation("npstats.mom1", "moments differ")
    dmu, cond = ref.dm(weighted=False)
    if cond < 1e6 and not _angle_close(dmv, dmu, R.R2D * 8 * rt * cond + 1e-9):
        raise Violation("npstats.dm", "%r vs %r" % (dmv, dmu))
    ctx.nt(int(np.sum(E64.sum(1) > 0)) >= 2 and int(np.sum(E64.sum(0) > 0)) >= 2)
    ctx.label("dtype=" + case["dtype"], "kind=" + case["spec"]["kind"])
    ctx.show(gen.describe(case["fg"], case["dg"], [case["spec"]]))


def facets():
    return [
        Facet("stats", stat_case(), check_stats, quick=240, thorough=16000, qshards=3),
        Facet("stats_small", stat_case(nfmax=4, ndmax=4), check_stats, quick=160, thorough=8000, qshards=2),
        Enumeration("dispersion", disp_items, check_disp, bounds="f in [0.005,5] Hz x h in [0.01, 2e4] m log lattice"),
        Facet("accessor_dispersion", acc_disp_case(), check_acc_disp, quick=100, thorough=3000),
        Facet("npstats", np_case(), check_np, quick=200, thorough=10000),
        Facet("dm_full", stat_case(), check_dm_full, quick=0, thorough=0, doc="replay target of the dm known finding"),
    ]


def extra_evidence(merged, tier):
    n = 60 if tier == "quick" else 200
    return dict(exhaustive_subspaces=["dispersion relation on the %dx%d log lattice f in [0.005,5] Hz x h in [0.01,2e4] m" % (n, n)] if merged.get("dispersion", {}).get("exhaustive") else [])
