"""C11 - writing a dataset and reading it back returns the same spectra."""
import os
import shutil

import numpy as np
from hypothesis import strategies as st

from .. import env, gen
from ..core import Facet, Violation
from ..ref import stats as R

PROP = "C11"
RULE = (
    "A case is a dataset in the wavespectra convention and a writer/reader pair inside its documented scope. SWAN ASCII: "
    "1-4 times x 1-4 stations or a lat x lon grid of unequal sizes, sorted / rolled / descending directions, zero and "
    "all-NaN spectra, up to 12 decades of dynamic range, plain and .gz, chunked writing (ntime), read back default and "
    "as_site=True. JSON: any such dataset. WW3 netCDF and wavespectra netCDF (packed or not): station layout through the "
    "scipy NETCDF3 backend. Octopus: one site, whole-degree directions, cutoff inside the frequency range, any ntime. "
    "Funwave: one spectrum, clip=False. Oracle: times, positions matched by (lon, lat), frequencies, directions and every "
    "bin agree within the format's own quantum (SWAN: half of max/9998 per spectrum; Octopus: 5e-8/(df dd); Funwave: from "
    "%12.8f amplitudes; packed netCDF: 5e-6; JSON / WW3 / unpacked netCDF: a few ulp); zero stays zero and all-NaN stays "
    "NaN where the format can express it. Non-trivial = at least two positions with different spectra or at least two "
    "times; distinct by canonical hash."
)
ASSUMPTIONS = [
    "coordinates are generated on the formats' print resolution (frequencies with 5 decimals, lon/lat with 6, whole-second / whole-minute times) so that the only loss is the documented quantisation of the energy values",
    "netCDF4 / zarr back ends are not installed: NETCDF4, zlib compression and zarr round trips cannot be executed here and are not claimed",
    "Funwave turns a 0 degree direction into 360 on reading; directions are compared modulo 360",
    "Octopus files written in several blocks (ntime smaller than the record count) are checked for completeness of the written records; the reader documents a single block per file",
]


@st.composite
def ds_case(draw, layouts=("station", "grid"), one_site=False, whole_dirs=False, maxt=4):
    nf = draw(st.integers(2, 8))
    fmax = draw(st.sampled_from([0.2, 0.3, 0.5, 0.9]))
    r = draw(st.sampled_from([1.1, 1.2, 1.35]))
    f = sorted({round(fmax / r**i, 5) for i in range(nf)})
    dg = draw(gen.dir_grid(3, 12, spacing=("whole",) if whole_dirs else ("whole", "dyadic")))
    layout = "station" if one_site else draw(st.sampled_from(layouts))
    nt = draw(st.integers(1, maxt))
    if layout == "grid":
        nlat, nlon = draw(st.sampled_from([(1, 2), (2, 1), (2, 3), (3, 2), (1, 3), (2, 2)]))
        npos = nlat * nlon
    else:
        nlat = nlon = 0
        npos = 1 if one_site else draw(st.integers(1, 4))
    kinds = ("multinoisy", "multi", "sparse", "wide", "zero", "nan")
    specs = []
    for _ in range(nt * npos):
        k = draw(st.sampled_from(kinds))
        s = draw(gen.spectrum(kinds=(k if k != "nan" else "zero",)))
        s["nan"] = k == "nan"
        s["amp"] = draw(st.sampled_from([1e-4, 0.02, 1.0, 40.0]))
        specs.append(s)
    return dict(f=f, dg=dg, layout=layout, nt=nt, npos=npos, nlat=nlat, nlon=nlon, specs=specs, winds=draw(st.booleans()), gz=draw(st.booleans()), ntime=draw(st.sampled_from([None, None, 1, 2, 3])),
                as_site=draw(st.booleans()), packed=draw(st.booleans()), lon0=draw(st.sampled_from([150.25, -70.5, 359.0, 0.125])), minutes=draw(st.sampled_from([60, 180, 30])),
                perm=draw(st.one_of(st.none(), st.none(), st.permutations(list(range(5 if layout == "grid" else 4))))), lat_desc=draw(st.booleans()), lon_desc=draw(st.booleans()), t0=draw(st.integers(0, 3)))


def build(case, allow_nan=True):
    import pandas as pd
    import xarray as xr

    f = np.array(case["f"])
    d = np.array(case["dg"]["d"])
    oi = gen.order_index(case["dg"])
    nt, npos = case["nt"], case["npos"]
    E = np.zeros((nt, npos, len(f), len(d)))
    for t in range(nt):
        for p in range(npos):
            s = case["specs"][t * npos + p]
            if s.get("nan") and allow_nan:
                E[t, p] = np.nan
            else:
                E[t, p] = gen.build_spectrum(s, len(f), len(d))[:, oi]
    # series also start shortly before the end of a month / year / leap day, so that they run across the boundary
    t0 = ["2022-07-01 00:00:00", "2022-07-31 22:30:00", "2019-12-31 21:00:00", "2020-02-29 22:00:00"][case.get("t0", 0)]
    times = pd.date_range(t0, periods=nt, freq="%dmin" % case["minutes"])
    if case["layout"] == "grid":
        nlat, nlon = case["nlat"], case["nlon"]
        lats = np.round(-35.000003 + 0.750001 * np.arange(nlat), 6)
        lons = np.round(case["lon0"] + 0.000007 + 0.500001 * np.arange(nlon), 6)
        # grids are also stored north-to-south and / or east-to-west
        if case.get("lat_desc"):
            lats = lats[::-1].copy()
        if case.get("lon_desc"):
            lons = lons[::-1].copy()
        da = xr.DataArray(E.reshape(nt, nlat, nlon, len(f), len(d)), coords=dict(time=times, lat=lats, lon=lons, freq=f, dir=d), dims=("time", "lat", "lon", "freq", "dir"), name="efth")
        ds = da.to_dataset()
        lead = ["time", "lat", "lon"]
    else:
        da = xr.DataArray(E, coords=dict(time=times, site=np.arange(1, npos + 1), freq=f, dir=d), dims=("time", "site", "freq", "dir"), name="efth")
        ds = da.to_dataset()
        ds["lon"] = (("site",), np.round(case["lon0"] + 0.000007 + 0.500001 * np.arange(npos), 6))
        ds["lat"] = (("site",), np.round(-35.000003 - 0.250001 * np.arange(npos), 6))
        lead = ["time", "site"]
    if case["winds"]:
        shape = [ds.sizes[k] for k in lead]
        n = int(np.prod(shape))
        ds["wspd"] = (lead, np.round(3.0 + 0.37 * np.arange(n), 2).reshape(shape))
        ds["wdir"] = (lead, np.round((20.0 + 33.0 * np.arange(n)) % 360.0).reshape(shape))
        ds["dpt"] = (lead, np.round(10.0 + 5.5 * np.arange(n), 2).reshape(shape))
    if case.get("perm"):
        # the convention names the dimensions, it does not order them: the same dataset with its dimensions stored in another order
        dims = list(ds.efth.dims)
        ds = ds.transpose(*[dims[i] for i in case["perm"]])
    return ds


def positions(ds):
    """List of ((lon, lat), efth[time, freq, dir]) for every position of a station or grid dataset."""
    out = []
    if "site" in ds.efth.dims:
        e = ds.efth.transpose("site", "time", "freq", "dir").values
        for i in range(ds.sizes["site"]):
            out.append(((float(ds.lon.values[i]), float(ds.lat.values[i])), e[i]))
    else:
        e = ds.efth.transpose("lat", "lon", "time", "freq", "dir").values
        for i, la in enumerate(ds.lat.values):
            for j, lo in enumerate(ds.lon.values):
                out.append(((float(lo), float(la)), e[i, j]))
    return out


def compare(src, got, quantum, what, dir_mod=False, time_res="s", lonlat_tol=1e-6):
    """quantum(spectrum[f,d] source) -> absolute tolerance per bin (array or scalar)."""
    ts, tg = np.asarray(src.time.values).astype("datetime64[%s]" % time_res), np.asarray(got.time.values).astype("datetime64[%s]" % time_res)
    if len(ts) != len(tg) or not np.array_equal(ts, tg):
        raise Violation("times", "%s: times %s came back as %s" % (what, ts[:4], tg[:4]))
    fs, fgot = np.asarray(src.freq.values, dtype=float), np.asarray(got.freq.values, dtype=float)
    if len(fs) != len(fgot) or not np.allclose(fs, fgot, rtol=0, atol=5e-8):
        raise Violation("freqs", "%s: frequencies %s came back as %s" % (what, fs, fgot))
    dsrc, dgot = np.asarray(src.dir.values, dtype=float), np.asarray(got.dir.values, dtype=float)
    key = (lambda x: np.round(x % 360.0, 6)) if dir_mod else (lambda x: np.round(x, 6))
    if sorted(key(dsrc).tolist()) != sorted(key(dgot).tolist()):
        raise Violation("dirs", "%s: directions %s came back as %s" % (what, np.sort(dsrc), np.sort(dgot)))
    order = [int(np.nonzero(key(dgot) == k)[0][0]) for k in key(dsrc)]
    ps, pg = positions(src), positions(got)
    if len(ps) != len(pg):
        raise Violation("positions", "%s: %d positions written, %d read" % (what, len(ps), len(pg)))
    for (xy, es) in ps:
        match = [eg for (xy2, eg) in pg if abs(xy2[0] - xy[0]) <= lonlat_tol and abs(xy2[1] - xy[1]) <= lonlat_tol]
        if len(match) != 1:
            raise Violation("position-missing", "%s: position lon=%r lat=%r not found (or duplicated) after reading; read positions %s" % (what, xy[0], xy[1], [p[0] for p in pg]))
        eg = match[0][..., order]
        for t in range(es.shape[0]):
            a, b = es[t], eg[t]
            if np.all(np.isnan(a)):
                if not np.all(np.isnan(b)):
                    raise Violation("nan-lost", "%s: all-missing spectrum at lon=%r lat=%r time %d came back with values (max %r)" % (what, xy[0], xy[1], t, np.nanmax(b)))
                continue
            if not np.any(a):
                if np.any(b != 0):
                    raise Violation("zero-lost", "%s: zero spectrum at lon=%r lat=%r time %d came back non-zero" % (what, xy[0], xy[1], t))
                continue
            if np.any(np.isnan(b)):
                raise Violation("nan-gained", "%s: spectrum at lon=%r lat=%r time %d came back with NaN" % (what, xy[0], xy[1], t))
            tol = quantum(a)
            if np.any(np.abs(a - b) > tol):
                i, j = np.argwhere(np.abs(a - b) > tol)[0]
                raise Violation("values", "%s: lon=%r lat=%r time %d bin (f=%r, dir=%r): wrote %r, read %r (format quantum %r; spectrum max %r)" % (
                    what, xy[0], xy[1], t, fs[i], dsrc[j], a[i, j], b[i, j], float(np.broadcast_to(tol, a.shape)[i, j]), a.max()))


def _work():
    w = os.path.join(env.workdir(), "c11")
    os.makedirs(w, exist_ok=True)
    return w


def _nt(case, ds):
    specs = case["specs"]
    return case["nt"] >= 2 or (case["npos"] >= 2 and len({(s["kind"], s["rs"], s["amp"]) for s in specs}) >= 2)


# ----------------------------------------------------------------------------- SWAN

def check_swan(case, ctx):
    from wavespectra import read_swan

    ds = build(case)
    north360 = case["minutes"] == 30 and 0.0 in case["dg"]["d"]
    if north360:
        # north labelled 360 instead of 0 (a listing 30, 60, ..., 360): written verbatim, read back modulo 360
        ds = ds.assign_coords(dir=np.where(ds.dir.values == 0.0, 360.0, ds.dir.values))
        ctx.label("north-labelled-360")
    w = _work()
    path = os.path.join(w, "rt.spec" + (".gz" if case["gz"] else ""))
    try:
        with ctx.lib("to_swan(ntime=%r)" % case["ntime"]):
            ds.spec.to_swan(path, ntime=case["ntime"])
        as_site = case["as_site"] or case["layout"] == "station"
        with ctx.lib("read_swan(as_site=%s)" % as_site):
            got = read_swan(path, as_site=as_site)
        src = ds
        if case["layout"] == "grid":
            if as_site:
                # stations in file order: compare through (lon, lat) anyway
                pass
        if "site" not in got.efth.dims and "lat" not in got.efth.dims:
            raise Violation("layout", "read_swan returned dims %s" % (got.efth.dims,))
        if case["layout"] == "grid" and not as_site and set(got.efth.dims) != {"time", "lat", "lon", "freq", "dir"}:
            raise Violation("layout", "a lat x lon grid came back with dims %s" % (got.efth.dims,))

        def q(a):
            return 0.5 * a.max() / 9998.0 * (1 + 1e-6) + 1e-8 * a.max()

        compare(src, got, q, "SWAN ASCII (%s%s%s)" % (case["layout"], ", gz" if case["gz"] else "", ", ntime=%r" % case["ntime"]), dir_mod=north360)
    finally:
        shutil.rmtree(w, ignore_errors=True)
    ctx.nt(_nt(case, ds))
    ctx.label("layout=" + case["layout"], "latlon-order=%s/%s" % ("desc" if case.get("lat_desc") else "asc", "desc" if case.get("lon_desc") else "asc") if case["layout"] == "grid" else "stations", "gz=%s" % case["gz"], "ntime=%r" % case["ntime"], "as_site=%s" % case["as_site"], "dorder=" + case["dg"]["order"], *["kind=" + ("nan" if s.get("nan") else s["kind"]) for s in case["specs"][:4]])
    ctx.show(dict(format="swan", layout=case["layout"], times=case["nt"], positions=case["npos"], grid=[case["nlat"], case["nlon"]], f=case["f"], dorder=case["dg"]["order"], gz=case["gz"], ntime=case["ntime"]))


# ----------------------------------------------------------------------------- JSON

def check_json(case, ctx):
    from wavespectra import read_json

    ds = build(case)
    w = _work()
    path = os.path.join(w, "rt.json")
    try:
        with ctx.lib("to_json"):
            ds.spec.to_json(path)
        with ctx.lib("read_json"):
            got = read_json(path)
        if case["layout"] == "station":
            for k in ("lon", "lat"):
                if k not in got or not np.array_equal(got[k].values, ds[k].values):
                    raise Violation("lonlat", "%s changed through JSON" % k)
        compare(ds, got, lambda a: 4e-16 * np.abs(a), "JSON")
        for k in ("wspd", "wdir", "dpt"):
            if k in ds and (k not in got or not np.allclose(got[k].values, ds[k].transpose(*got[k].dims).values, rtol=1e-15)):
                raise Violation("aux", "%s changed through JSON" % k)
    finally:
        shutil.rmtree(w, ignore_errors=True)
    ctx.nt(_nt(case, ds))
    ctx.label("layout=" + case["layout"], "winds=%s" % case["winds"])
    ctx.show(dict(format="json", layout=case["layout"], times=case["nt"], positions=case["npos"]))


# ----------------------------------------------------------------------------- netCDF (wavespectra and WW3 conventions)

def check_netcdf(case, ctx):
    from wavespectra import read_netcdf, read_wavespectra

    ds = build(case)
    w = _work()
    path = os.path.join(w, "rt.nc")
    try:
        with ctx.lib("to_netcdf(NETCDF3_64BIT, compress=False, packed=%s)" % case["packed"]):
            ds.spec.to_netcdf(path, ncformat="NETCDF3_64BIT", compress=False, packed=case["packed"])
        reader = read_wavespectra if case["as_site"] else read_netcdf
        with ctx.lib(reader.__name__):
            got = reader(path).load()
        got.close()
        q = (lambda a: 5.0000001e-6 + 1e-12 * np.abs(a)) if case["packed"] else (lambda a: 4e-16 * np.abs(a))
        if case["packed"] and np.nanmax(ds.efth.values) >= 2**31 * 1e-5:
            ctx.label("exceeds-int32-range(skipped)")
            return
        compare(ds, got, q, "wavespectra netCDF (packed=%s)" % case["packed"], time_res="s")
    finally:
        shutil.rmtree(w, ignore_errors=True)
    ctx.nt(_nt(case, ds))
    ctx.label("layout=" + case["layout"], "packed=%s" % case["packed"], "reader=" + reader.__name__)
    ctx.show(dict(format="netcdf", layout=case["layout"], packed=case["packed"], times=case["nt"], positions=case["npos"]))


def check_ww3(case, ctx):
    from wavespectra import read_ww3

    ds = build(case, allow_nan=True)
    w = _work()
    path = os.path.join(w, "rt_ww3.nc")
    try:
        with ctx.lib("to_ww3"):
            ds.spec.to_ww3(path)
        with ctx.lib("read_ww3"):
            got = read_ww3(path).load()
        got.close()
        compare(ds, got, lambda a: 1e-14 * np.abs(a) + 1e-300, "WW3 netCDF", lonlat_tol=1e-9)
        for k in ("wspd", "wdir"):
            if k in ds and (k not in got or not np.allclose(got[k].transpose("time", "site").values, ds[k].transpose("time", "site").values, rtol=1e-12)):
                raise Violation("winds", "%s changed through the WW3 round trip" % k)
    finally:
        shutil.rmtree(w, ignore_errors=True)
    ctx.nt(_nt(case, ds))
    ctx.label("winds=%s" % case["winds"], "dorder=" + case["dg"]["order"])
    ctx.show(dict(format="ww3", times=case["nt"], sites=case["npos"], dorder=case["dg"]["order"]))


# ----------------------------------------------------------------------------- Octopus

def check_octopus(case, ctx):
    from wavespectra import read_octopus

    ds = build(case, allow_nan=False)
    f = np.array(case["f"])
    fcut = float(0.5 * (f[0] + f[-1]))
    w = _work()
    path = os.path.join(w, "rt.oct" + (".gz" if case["gz"] else ""))
    try:
        with ctx.lib("to_octopus(ntime=%r)" % case["ntime"]):
            ds.spec.to_octopus(path, fcut=fcut, ntime=case["ntime"])
        # completeness of what was written: one record header per time step
        import gzip

        opener = gzip.open if case["gz"] else open
        with opener(path, "rt") as fh:
            nrec = sum(1 for line in fh if line.startswith("CCYYMM"))
        if nrec != case["nt"]:
            raise Violation("records-written", "%d time steps, %d records in the Octopus file (ntime=%r)" % (case["nt"], nrec, case["ntime"]))
        single_block = case["ntime"] is None or case["ntime"] >= case["nt"]
        if single_block:
            with ctx.lib("read_octopus"):
                got = read_octopus(path)
            df, dd = R.df_of(f), 360.0 / len(case["dg"]["d"])

            def q(a):
                return 5.0000001e-8 / (df[:, None] * dd) + 1e-9 * np.abs(a)

            compare(ds, got, q, "Octopus", time_res="m")
            if case["winds"]:
                if not np.allclose(got.wspd.values.ravel(), ds.wspd.values.ravel(), atol=5.1e-3) or not np.allclose(got.wdir.values.ravel() % 360, np.round(ds.wdir.values.ravel()) % 360, atol=0.51):
                    raise Violation("winds", "wind speed / direction changed beyond the print precision: %s %s vs %s %s" % (got.wspd.values.ravel(), got.wdir.values.ravel(), ds.wspd.values.ravel(), ds.wdir.values.ravel()))
        else:
            ctx.label("multi-block(written records counted only)")
    finally:
        shutil.rmtree(w, ignore_errors=True)
    ctx.nt(case["nt"] >= 2)
    ctx.label("gz=%s" % case["gz"], "ntime=%r" % case["ntime"], "winds=%s" % case["winds"], "dorder=" + case["dg"]["order"])
    ctx.show(dict(format="octopus", times=case["nt"], f=case["f"], ndir=case["dg"]["n"], ntime=case["ntime"], fcut=fcut))


# ----------------------------------------------------------------------------- Funwave

def check_funwave(case, ctx):
    import xarray as xr
    from wavespectra import read_funwave

    full = build(case, allow_nan=False)
    one = full.isel(time=0, site=0, drop=True)[["efth"]]
    if not np.any(one.efth.values):
        one["efth"] = one.efth + 0.01
    f = np.array(case["f"])
    w = _work()
    path = os.path.join(w, "rt_funwave.txt")
    try:
        with ctx.lib("to_funwave(clip=False)"):
            one.spec.to_funwave(path, clip=False)
        with ctx.lib("read_funwave"):
            got = read_funwave(path)
        a = one.efth.transpose("freq", "dir").values
        fg, dgot = np.asarray(got.freq.values, dtype=float), np.asarray(got.dir.values, dtype=float)
        if not np.allclose(fg, f, atol=5e-8):
            raise Violation("freqs", "Funwave: frequencies %s came back as %s" % (f, fg))
        dsrc = np.asarray(one.dir.values, dtype=float)
        if sorted(np.round(dsrc % 360, 3).tolist()) != sorted(np.round(dgot % 360, 3).tolist()):
            raise Violation("dirs", "Funwave: directions %s came back as %s" % (np.sort(dsrc), np.sort(dgot)))
        order = [int(np.nonzero(np.round(dgot % 360, 3) == k)[0][0]) for k in np.round(dsrc % 360, 3)]
        b = got.efth.transpose("freq", "dir").values[:, order]
        df, dd = R.df_of(f), 360.0 / len(dsrc)
        amp = np.sqrt(a * df[:, None] * dd * 8) / 2
        tol = (2 * amp * 5.0000001e-9 + 2.6e-17) / (2 * df[:, None] * dd) + 1e-9 * a
        if np.any(np.abs(a - b) > tol):
            i, j = np.argwhere(np.abs(a - b) > tol)[0]
            raise Violation("values", "Funwave: bin (f=%r, dir=%r): wrote %r, read %r (amplitude print quantum allows %r)" % (f[i], dsrc[j], a[i, j], b[i, j], tol[i, j]))
    finally:
        shutil.rmtree(w, ignore_errors=True)
    ctx.nt(True)
    ctx.label("dorder=" + case["dg"]["order"], "zero-dir" if np.any(dsrc % 360 == 270.0) else "no-zero-dir")
    ctx.show(dict(format="funwave", f=case["f"], dirs=case["dg"]["d"][:6]))


def facets():
    return [
        Facet("swan", ds_case(), check_swan, quick=200, thorough=8000, qshards=4),
        Facet("json", ds_case(), check_json, quick=120, thorough=5000, qshards=2),
        Facet("netcdf", ds_case(layouts=("station", "grid")), check_netcdf, quick=120, thorough=5000, qshards=2),
        Facet("ww3", ds_case(layouts=("station",)), check_ww3, quick=100, thorough=5000, qshards=2),
        Facet("octopus", ds_case(one_site=True, whole_dirs=True), check_octopus, quick=100, thorough=5000, qshards=3),
        Facet("funwave", ds_case(one_site=True, whole_dirs=True, maxt=1), check_funwave, quick=120, thorough=5000, qshards=1),
    ]
