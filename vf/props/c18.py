"""C18 - results reflect the object's current contents, not earlier calls (histories)."""
import os

import numpy as np
from hypothesis import strategies as st

from .. import env, gen, ops
from ..core import Facet, Violation

PROP = "C18"
RULE = (
    "A case is a history: 1-3 live objects (Datasets with wind/depth, DataArrays named efth or with a non-standard name) "
    "and a sequence of up to 12 (quick) / 30 (thorough) steps drawn from: any accessor call with its result discarded, "
    "in-place edits (ds['efth']=..., da[...]=..., ds['dir']=..., da['dir']=..., ds['freq']=...), watershed partition calls on "
    "arrays of other shapes, stats(['nosuch']), look-ups of undeclared names in the global attribute table, reader calls "
    "on in-memory native datasets, and observations. A plain-numpy model of each object's current contents is kept "
    "alongside. Oracle: at every observation op(obj) equals op(fresh object built from the model), values and attributes, "
    "and ds.spec.op() equals ds.efth.spec.op(); the first four observations of each history (and every unknown-statistic rejection) are repeated in a "
    "pristine process (forkserver preloaded with the library, no operation ever run) and must agree. Non-trivial = the "
    "history contains an in-place edit, or two partition calls of different shapes, or an attribute-table look-up, "
    "before an observation; distinct by canonical hash."
)
ASSUMPTIONS = [
    "histories are generated as explicit step lists (interpreted against a model) rather than with Hypothesis' RuleBasedStateMachine, so that a history is a plain JSON replay file; preconditions are resolved by indexing modulo the live objects",
    "results compared bit for bit (same arithmetic on identical data), NaN equal to NaN; attributes compared as plain dictionaries",
    "the pristine process is a forkserver child: the server imported wavespectra (with the extension built from the tree) but never executed an operation",
]

OBS_OPS_DA = ["hs", "tm02", "dm", "dspr", "tp", "dpm", "dp", "oned", "momf1", "smooth33", "rotate", "interp_freq", "split_f", "ptm3", "ptm5", "bbox", "to_energy", "stats_list", "uss", "swe", "goda", "celerity", "gamma", "alpha", "dpspr", "gw", "sw", "hmax"]
OBS_OPS_DS = OBS_OPS_DA + ["ptm1", "ptm2", "ptm4", "ptm1_smooth"]
EXTRA_OBS = ["stats_bad"]

_server = None


class PristineServer:
    def __init__(self):
        import subprocess
        import sys

        e = dict(os.environ, VERIF_REPO=env.REPO, PYTHONPATH=env.VERIF)
        self.p = subprocess.Popen([sys.executable, "-m", "vf.pristine_server"], stdin=subprocess.PIPE, stdout=subprocess.PIPE, stderr=subprocess.DEVNULL, cwd=env.VERIF, env=e)
        line = self.p.stdout.readline()
        if line.strip() != b"READY":
            raise env.HarnessError("pristine server did not start: %r" % line)

    def ask(self, payload, timeout=120):
        import pickle
        import select
        import struct

        data = pickle.dumps(payload)
        self.p.stdin.write(struct.pack(">Q", len(data)) + data)
        self.p.stdin.flush()
        fd = self.p.stdout.fileno()
        buf = b""
        need = 8
        n = None
        import time as _t

        t0 = _t.time()
        while True:
            r, _, _ = select.select([fd], [], [], 1.0)
            if r:
                chunk = os.read(fd, 1 << 20)
                if not chunk:
                    raise env.HarnessError("pristine server closed its pipe")
                buf += chunk
                if n is None and len(buf) >= 8:
                    n = struct.unpack(">Q", buf[:8])[0]
                if n is not None and len(buf) >= 8 + n:
                    return pickle.loads(buf[8:8 + n])
            elif _t.time() - t0 > timeout:
                self.close()
                return ("hang", None)

    def close(self):
        try:
            self.p.stdin.close()
            self.p.kill()
            self.p.wait(timeout=5)
        except Exception:  # noqa: BLE001
            pass


def server():
    global _server
    if _server is None or _server.p.poll() is not None:
        _server = PristineServer()
        env.CLEANUPS.append(_shutdown)
    return _server


def _shutdown():
    global _server
    if _server is not None:
        _server.close()
        _server = None


@st.composite
def obj_spec(draw):
    fg = draw(gen.freq_grid(3, 8))
    dg = draw(gen.dir_grid(3, 12, spacing=("whole", "dyadic")))
    kind = draw(st.sampled_from(["Dataset", "Dataset", "DataArray", "DataArray-named"]))
    nt = draw(st.integers(1, 3))
    # a record without energy (calm / land point) now and then: operations on it warn, which is what a leaked process-wide
    # setting (warnings filter, floating-point error mode) would turn into a different outcome
    return dict(fg=fg, dg=dg, kind=kind, dims=[["time", nt]], specs=[draw(gen.spectrum(kinds=("multinoisy", "multi", "sparse", "multinoisy", "zero"))) for _ in range(nt)],
                winds=[dict(wspd=draw(st.floats(2, 25)), wdir=draw(st.floats(0, 360)), dpt=draw(st.sampled_from([5.0, 80.0])))])


@st.composite
def step(draw):
    # in-place edits and observations carry most of the weight: a stale value needs call -> edit -> observe on one object
    kind = draw(st.sampled_from(["call", "call", "call", "set_efth", "set_efth", "set_dir", "set_dir", "set_freq", "set_freq", "partition_other", "partition_other", "bad_stat", "attr_lookup", "reader", "file_roundtrip",
                                 "fit", "observe", "observe", "observe", "observe", "observe"]))
    s = dict(kind=kind, obj=draw(st.integers(0, 2)), via=draw(st.sampled_from(["dataset", "array"])))
    if kind in ("call", "observe"):
        s["op"] = draw(ops.op_spec(names=OBS_OPS_DS, has_dir=True, nf=3))
        if draw(st.integers(0, 11)) == 0:
            s["op"] = dict(s["op"], op="stats_bad")
    elif kind == "set_efth":
        s["how"] = draw(st.sampled_from(["scale", "replace", "inplace_values"]))
        s["k"] = draw(st.sampled_from([4.0, 0.25, 9.0]))
        s["spec"] = draw(gen.spectrum(kinds=("multinoisy", "sparse")))
    elif kind == "set_dir":
        s["how"] = draw(st.sampled_from(["shift", "halve", "halve", "reverse"]))
        s["a"] = draw(st.sampled_from([7.5, 90.0, 180.0]))
    elif kind == "set_freq":
        s["k"] = draw(st.sampled_from([1.1, 0.5, 2.0]))
    elif kind == "partition_other":
        s["shape"] = [draw(st.integers(1, 12)), draw(st.integers(1, 16))]
        # shapes related to the live object's own grid: transposed, or another factorisation of its bin count
        s["shape_mode"] = draw(st.sampled_from(["random", "transpose", "factor", "factor"]))
        s["pick"] = draw(st.integers(0, 7))
        s["spec"] = draw(gen.spectrum(kinds=("multi", "sparse", "constant")))
        s["ihmax"] = draw(st.sampled_from([3, 100]))
    elif kind == "attr_lookup":
        s["name"] = draw(st.sampled_from(["spectrum", "nosuchvar", "efth2", "value"]))
    elif kind == "reader":
        s["which"] = draw(st.sampled_from(["ww3", "ncswan", "wwm"]))
    elif kind == "fit":
        s["which"] = draw(st.sampled_from(["fit_jonswap", "fit_gaussian"]))
    elif kind == "file_roundtrip":
        s["which"] = draw(st.sampled_from(["swan", "swan-1dir", "json", "octopus", "netcdf", "ww3", "ww3"]))
    return s


@st.composite
def history(draw, maxsteps=12):
    n = draw(st.integers(1, 3))
    objs = [draw(obj_spec()) for _ in range(n)]
    steps = draw(st.lists(step(), min_size=2, max_size=maxsteps))
    # make sure there is something to observe at the end
    steps.append(dict(kind="observe", obj=draw(st.integers(0, 2)), via=draw(st.sampled_from(["dataset", "array"])), op=draw(ops.op_spec(names=OBS_OPS_DS, has_dir=True, nf=3))))
    return dict(objs=objs, steps=steps)


class Live:
    """A live library object together with the plain model of what it currently contains."""

    def __init__(self, spec):
        from .c05 import winds_of
        from .. import pristine

        x = gen.build_dataarray(spec["fg"], spec["dg"], spec["specs"], spec["dims"], dtype="float64")
        self.kind = "Dataset" if spec["kind"] == "Dataset" else "DataArray"
        name = "spectrum" if spec["kind"] == "DataArray-named" else "efth"
        attrs = {"units": "m2 s / deg", "origin": "caller"} if name == "spectrum" else {}
        aux = winds_of(spec, x)
        self.model = dict(kind=self.kind, name=name, dims=list(x.dims), dtype="float64", values=np.array(x.values), attrs=attrs,
                          coords={d: (np.asarray(x[d].values).astype("datetime64[ns]") if d == "time" else np.array(x[d].values, dtype=float)) for d in x.dims},
                          extra={k: (list(v.dims), np.array(v.values)) for k, v in aux.items()} if self.kind == "Dataset" else {})
        self.obj = pristine.build(self.model)
        self.aux = None if self.kind == "Dataset" else {k: v for k, v in aux.items()}

    def fresh(self):
        from .. import pristine

        return pristine.build(self.model)

    def efth(self):
        return self.obj["efth"] if self.kind == "Dataset" else self.obj


def _apply(live, obj, op, via):
    from .. import pristine

    spec = dict(op, via=via)
    if live.kind != "Dataset":
        if op["op"] in ("ptm1", "ptm2", "ptm4", "ptm1_smooth"):
            spec["_aux"] = live.aux
    return pristine.apply(obj, spec)


def _same(a, b, what):
    if set(a) != set(b):
        raise Violation("history-dependence", "%s: result variables %s vs %s" % (what, sorted(a), sorted(b)))
    for k in a:
        x, y = a[k], b[k]
        if x["dims"] != y["dims"] or x["values"].shape != y["values"].shape:
            raise Violation("history-dependence", "%s[%s]: dims/shape %s %s vs %s %s" % (what, k, x["dims"], x["values"].shape, y["dims"], y["values"].shape))
        for d in x["coords"]:
            if d not in y["coords"] or not np.array_equal(x["coords"][d], y["coords"][d]):
                raise Violation("history-dependence", "%s[%s]: coordinate %s differs" % (what, k, d))
        if not np.array_equal(x["values"], y["values"], equal_nan=True):
            va, vb = np.asarray(x["values"], dtype=float), np.asarray(y["values"], dtype=float)
            i = tuple(np.argwhere(~((va == vb) | (np.isnan(va) & np.isnan(vb))))[0])
            raise Violation("history-dependence", "%s[%s]: value at %s is %r on the object with a history, %r on a fresh object with the same contents" % (what, k, list(i), va[i], vb[i]))
        if x["attrs"] != y["attrs"]:
            raise Violation("history-dependence-attrs", "%s[%s]: attrs %s on the object with a history, %s on a fresh object" % (what, k, x["attrs"], y["attrs"]))


def check_history(case, ctx):
    import xarray as xr
    from wavespectra.core.attributes import attrs as A
    from wavespectra.input.dataset import read_dataset
    from wavespectra.partition import specpart
    from .. import pristine
    from ..enc import native

    lives = [Live(o) for o in case["objs"]]
    edited = shapes = looked = 0
    shapes_seen = set()
    nobs = 0
    last = None
    nt = False
    suspicious = 0  # observations still to be repeated in the pristine process because of what just happened
    for s in case["steps"]:
        L = lives[s["obj"] % len(lives)]
        k = s["kind"]
        nf = len(L.model["coords"]["freq"])
        if k in ("call", "observe"):
            op = s["op"]
            via = s["via"] if L.kind == "Dataset" else "array"
            if k == "call":
                try:
                    r = _apply(L, L.obj, op, via)
                    pristine.plain_result(r)
                except Exception:  # noqa: BLE001 - discarded call, failures are C20's business
                    pass
                continue
            # observation
            try:
                got = ("ok", pristine.plain_result(_apply(L, L.obj, op, via)))
            except Exception as e:  # noqa: BLE001
                got = ("raised", type(e).__name__)
            fresh = L.fresh()
            try:
                want = ("ok", pristine.plain_result(_apply(L, fresh, op, via)))
            except Exception as e:  # noqa: BLE001
                want = ("raised", type(e).__name__)
            nobs += 1
            what = "%s via %s accessor after %d steps" % (op["op"], via, case["steps"].index(s))
            if got[0] != want[0] or (got[0] == "raised" and got[1] != want[1]):
                raise Violation("history-dependence", "%s: %s on the object with a history, %s on a fresh object with the same contents" % (what, got if got[0] == "raised" else "returns", want if want[0] == "raised" else "returns"))
            if got[0] == "ok":
                _same(got[1], want[1], what)
                if L.kind == "Dataset":
                    other = "array" if via == "dataset" else "dataset"
                    try:
                        alt = ("ok", pristine.plain_result(_apply(L, L.obj, op, other)))
                    except Exception as e:  # noqa: BLE001
                        alt = ("raised", type(e).__name__)
                    if alt[0] != "ok":
                        raise Violation("dataset-vs-efth", "%s: works through the %s accessor, raises %s through the %s accessor" % (what, via, alt[1], other))
                    _same(got[1], alt[1], what + " (Dataset accessor vs efth accessor)")
            last = (L, op, via, got)
            if edited or len(shapes_seen) >= 2 or looked:
                nt = True
            # the same observation in a pristine process (first four observations and every rejection check)
            import warnings as _w

            if got[0] == "raised" or any(f[0] == "error" for f in _w.filters) or tuple(np.geterr().values()) != ("warn", "warn", "ignore", "warn"):
                suspicious = max(suspicious, 1)  # an observation that raises, or a process set to turn warnings into errors
            if suspicious:
                suspicious -= 1
                force = True
            else:
                force = False
            if (nobs <= 4 or op["op"] == "stats_bad" or force) and not (L.kind != "Dataset" and op["op"] in ("ptm1", "ptm2", "ptm4", "ptm1_smooth")):
                model = dict(L.model)
                model["coords"] = {k_: (("datetime64[ns]", v.astype("datetime64[ns]").astype("int64").tolist()) if k_ == "time" else np.array(v)) for k_, v in model["coords"].items()}
                pw = server().ask((model, dict(op, via=via)))
                if pw[0] in ("harness-error", "died"):
                    raise env.HarnessError("pristine process failed: %r" % (pw,))
                ctx.evals += 1
                if pw[0] != got[0] or (got[0] == "raised" and pw[1] != got[1]):
                    raise Violation("process-history", "%s: %s in this process, %s in a pristine process" % (what, got if got[0] == "raised" else "returns", pw if pw[0] != "ok" else "returns"))
                if got[0] == "ok":
                    _same(got[1], pw[1], "%s (this process vs pristine process)" % what)
            continue
        if k == "set_efth":
            if s["how"] == "scale":
                new = L.model["values"] * s["k"]
            else:
                shp = L.model["values"].shape
                one = gen.build_spectrum(s["spec"], shp[-2], shp[-1])
                new = np.broadcast_to(one, shp).copy()
            if L.kind == "Dataset":
                if s["how"] == "inplace_values":
                    L.obj["efth"].values[...] = new
                else:
                    L.obj["efth"] = xr.DataArray(new.copy(), coords=L.obj["efth"].coords, dims=L.obj["efth"].dims)
            else:
                if s["how"] == "inplace_values":
                    L.obj.values[...] = new
                else:
                    L.obj[...] = new
            L.model["values"] = np.array(new)
            edited += 1
        elif k == "set_dir":
            d = L.model["coords"]["dir"]
            if s["how"] == "shift":
                nd_ = (d + s["a"]) % 360.0
            elif s["how"] == "halve":
                nd_ = d * 0.5
            else:
                nd_ = (360.0 - d) % 360.0
            if len(set(nd_.tolist())) != len(nd_):
                continue
            L.obj["dir"] = nd_
            L.model["coords"]["dir"] = np.array(nd_)
            edited += 1
        elif k == "set_freq":
            nf_ = L.model["coords"]["freq"] * s["k"]
            L.obj["freq"] = nf_
            L.model["coords"]["freq"] = np.array(nf_)
            edited += 1
        elif k == "partition_other":
            shp = list(s["shape"])
            nfl, ndl = len(L.model["coords"]["freq"]), len(L.model["coords"]["dir"])
            if s.get("shape_mode") == "transpose":
                shp = [ndl, nfl]
            elif s.get("shape_mode") == "factor":
                n = nfl * ndl
                pairs = [(a_, n // a_) for a_ in range(1, n + 1) if n % a_ == 0 and (a_, n // a_) != (nfl, ndl)]
                shp = list(pairs[s.get("pick", 0) % len(pairs)])
            s = dict(s, shape=shp)
            a = gen.build_spectrum(s["spec"], s["shape"][0], s["shape"][1], dtype=np.float32)
            specpart.partition(a, s["ihmax"])
            shapes_seen.add(tuple(s["shape"]))
            suspicious = max(suspicious, 3)  # whatever the routine keeps between calls is process-wide: only the pristine process can tell
        elif k == "bad_stat":
            try:
                L.efth().spec.stats(["hs", "nosuch"])
            except ValueError:
                pass
            looked += 1
        elif k == "attr_lookup":
            _ = A.ATTRS[s["name"]]
            _ = A.ATTRS[s["name"]]["units"]
            looked += 1
        elif k == "file_roundtrip":
            # a file written from the live object's current contents and read back with the matching reader, both discarded
            import shutil
            import wavespectra as _ws

            wd = os.path.join(env.workdir(), "c18")
            os.makedirs(wd, exist_ok=True)
            try:
                # the writer is called on the live object itself (or on views of its buffers): whatever it does to its
                # receiver shows at the next observation
                dsl = L.obj if L.kind == "Dataset" else L.obj.to_dataset(name="efth")
                if "site" not in dsl.dims:
                    dsl = dsl.expand_dims(site=[1])
                    dsl["lon"] = (("site",), [150.0])
                    dsl["lat"] = (("site",), [-30.0])
                w_ = s["which"]
                if w_ == "swan-1dir":
                    dsl = dsl.isel(dir=[0])
                pth = os.path.join(wd, "h." + {"swan": "spec", "swan-1dir": "spec", "json": "json", "octopus": "oct", "netcdf": "nc", "ww3": "nc"}[w_])
                if w_.startswith("swan"):
                    dsl.spec.to_swan(pth)
                    _ws.read_swan(pth)
                elif w_ == "json":
                    dsl.spec.to_json(pth)
                    _ws.read_json(pth)
                elif w_ == "octopus":
                    dsl.isel(site=0).spec.to_octopus(pth)
                    _ws.read_octopus(pth)
                elif w_ == "ww3":
                    dsl.spec.to_ww3(pth, ncformat="NETCDF3_64BIT")
                    _ws.read_ww3(pth).load().close()
                else:
                    dsl.spec.to_netcdf(pth, ncformat="NETCDF3_64BIT", compress=False)
                    _ws.read_netcdf(pth).load().close()
            except Exception:  # noqa: BLE001 - discarded call
                pass
            finally:
                shutil.rmtree(wd, ignore_errors=True)
            suspicious = 3
        elif k == "fit":
            try:
                r = getattr(L.efth().spec, s["which"])()
                r.load() if hasattr(r, "load") else None
            except Exception:  # noqa: BLE001 - discarded call
                pass
            suspicious = 3
        elif k == "reader":
            suspicious = max(suspicious, 2)
            o = case["objs"][s["obj"] % len(case["objs"])]
            T = native.truth(o["fg"], o["dg"], o["specs"], 2, 2, o["winds"], gen)
            nds = {"ww3": native.ww3, "ncswan": native.ncswan, "wwm": native.wwm}[s["which"]](T)
            try:
                read_dataset(nds)
            except Exception:  # noqa: BLE001
                pass
    ctx.nt(nt)
    ctx.label("objects=%d" % len(lives), "edits=%s" % ("0" if not edited else "1+"), "partition-shapes=%d" % min(len(shapes_seen), 3), "lookups=%s" % ("0" if not looked else "1+"), "observations=%d" % min(nobs, 4))
    ctx.show(dict(objects=[o["kind"] for o in case["objs"]], steps=[(s["kind"], s.get("op", {}).get("op") if "op" in s else s.get("how") or s.get("name") or s.get("which") or s.get("shape")) for s in case["steps"]]))


def facets():
    return [
        Facet("histories", history(14), check_history, quick=240, thorough=6000, qshards=8),
        Facet("long_histories", history(30), check_history, quick=0, thorough=3000, qshards=1),
    ]
