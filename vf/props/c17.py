"""C17 - no operation modifies the data it is given."""
import os
import shutil

import numpy as np
from hypothesis import strategies as st

from .. import env, gen, ops, snap
from ..core import Facet, Violation
from ..enc import native
from .c05 import winds_of

PROP = "C17"
RULE = (
    "A case is a short sequence (1-3) of public operations applied to the same argument objects, which are numpy-backed, "
    "dask-backed, or views into a larger caller-owned buffer. Catalogues: every accessor operation of the shared "
    "operation catalogue (DataArray and Dataset accessors, with wind/depth fields), the three site-selection methods "
    "with list / array queries and precomputed coordinates under both longitude conventions, construction helpers with "
    "keyword dictionaries, model-native readers on in-memory datasets, the six file writers, and calls that raise "
    "(even windows, overlapping boxes, reversed limits, unknown statistic). Oracle: a deep snapshot (bytes, dtype, shape, "
    "dims order, coordinates, index order, attrs, encoding, names, dask graph name and chunks, the whole parent buffer "
    "of a view, deep copies of lists and dicts) taken before equals the one taken after. Non-trivial = the operation "
    "has a code path that assigns into something derived from its argument (relabelling, convention swap, attribute or "
    "encoding update, unit conversion, writer) or the argument is a view / dask-backed; distinct by canonical hash."
)
ASSUMPTIONS = [
    "bit-for-bit comparison of every argument object, including keyword dictionaries and the module-level default dictionaries the callee could reach through them",
    "writers write under /verif/.work/<pid> which is removed afterwards; netCDF writers use the scipy NETCDF3 backend (the only one installed)",
]

MUTATING = {"rotate", "rotate_bin", "interp_freq", "interp_dir", "interp_both", "interp_nom0", "smooth33", "smooth_f", "smooth_d5", "ptm1", "ptm2", "ptm3", "ptm4", "ptm5",
            "ptm5_node", "bbox", "split_f", "split_fd", "scale_by_hs", "stats_list", "stats_band", "oned", "to_energy", "ptm1_smooth"}


def _backed(da, backing):
    """Return (object, parent buffer or None) with the requested backing."""
    if backing == "dask":
        return da.chunk({d: 1 if i == 0 and da.sizes[d] > 1 else -1 for i, d in enumerate(da.dims)}), None
    if backing == "view":
        v = da.values
        big = np.full((v.shape[0] + 2,) + v.shape[1:], 7.25, dtype=v.dtype) if v.ndim else v
        big[1:-1] = v
        return da.copy(data=big[1:-1]), big
    return da, None


@st.composite
def acc_case(draw):
    fg = draw(gen.freq_grid(3, 8))
    dg = draw(gen.dir_grid(3, 12, spacing=("whole", "dyadic")))
    dims = draw(gen.extra_dims(maxdims=2, maxsize=3))
    if not dims:
        dims = [["time", 2]]
    npos = int(np.prod([n for _, n in dims]))
    specs = [draw(gen.spectrum(kinds=("multinoisy", "sparse", "zero", "multi"))) for _ in range(min(npos, 3))]
    names = draw(st.lists(st.sampled_from(sorted(ops.CATALOGUE)), min_size=1, max_size=3))
    op = draw(ops.op_spec(has_dir=True, nf=len(fg["f"])))
    return dict(fg=fg, dg=dg, dims=dims, specs=specs, names=names, op=op, backing=draw(st.sampled_from(["numpy", "dask", "view"])), via=draw(st.sampled_from(["array", "dataset"])),
                dtype=draw(st.sampled_from(["float64", "float32"])), winds=[dict(wspd=draw(st.floats(1, 30)), wdir=draw(st.floats(0, 360)), dpt=draw(st.sampled_from([5.0, 50.0]))) for _ in range(min(npos, 3))],
                bad=draw(st.sampled_from([None, None, None, "even", "overlap", "reversed", "unknown"])))


def check_accessor(case, ctx):
    x0 = gen.build_dataarray(case["fg"], case["dg"], case["specs"], case["dims"], dtype=case["dtype"])
    x0.attrs["note"] = "caller attribute"
    x0.encoding["caller"] = {"k": [1, 2, 3]}
    x, parent = _backed(x0, case["backing"])
    aux = winds_of(case, x0)
    target = x
    if case["via"] == "dataset":
        ds = x.to_dataset(name="efth")
        for k, v in aux.items():
            ds[k] = v
        ds.attrs["title"] = "caller dataset"
        target = ds
    before = dict(x=snap.snap(target), aux={k: snap.snap(v) for k, v in aux.items()}, parent=snap.freeze(parent) if parent is not None else None)
    done = []
    for name in case["names"]:
        if len(case["fg"]["f"]) < ops.CATALOGUE[name][1]:
            continue
        spec = dict(case["op"], op=name)
        try:
            if case["via"] == "dataset":
                class _DS:
                    def __init__(self, d):
                        self.spec, self.sizes, self.freq, self.dir = d.spec, d.efth.sizes, d.efth.freq, d.efth.dir
                r = ops.apply(spec, _DS(target), aux)
            else:
                r = ops.apply(spec, target, aux)
            for part in ops.parts_of(r).values():
                part.compute()
        except Exception as e:  # noqa: BLE001 - purity must hold whether or not the call succeeds
            done.append(name + "!" + type(e).__name__)
        else:
            done.append(name)
    if case["bad"]:
        arr = target.efth if case["via"] == "dataset" else target
        try:
            if case["bad"] == "even":
                arr.spec.smooth(2, 4)
            elif case["bad"] == "overlap":
                arr.spec.partition.bbox([dict(fmin=0.0, fmax=1.0, dmin=0.0, dmax=200.0), dict(fmin=0.0, fmax=1.0, dmin=100.0, dmax=300.0)])
            elif case["bad"] == "reversed":
                arr.spec.split(fmin=0.3, fmax=0.1)
            else:
                arr.spec.stats(["hs", "nosuchstat"])
        except Exception as e:  # noqa: BLE001
            done.append("bad:" + case["bad"] + "!" + type(e).__name__)
    after = dict(x=snap.snap(target), aux={k: snap.snap(v) for k, v in aux.items()}, parent=snap.freeze(parent) if parent is not None else None)
    d = snap.diff(before, after)
    if d:
        raise Violation("input-modified", "after %s on a %s-backed %s: %s" % (done, case["backing"], case["via"], d))
    ctx.nt(case["backing"] != "numpy" or any(n.split("!")[0] in MUTATING for n in done))
    ctx.label("backing=" + case["backing"], "via=" + case["via"], *["op=" + n.split("!")[0] for n in done])
    ctx.show(dict(ops=done, backing=case["backing"], via=case["via"], dims=case["dims"]))


# ----------------------------------------------------------------------------- selection

@st.composite
def sel_case(draw):
    from .c14 import lon_near

    n = draw(st.integers(2, 5))
    lams = sorted({round(draw(lon_near()), 2) for _ in range(n)})
    return dict(lams=lams, conv_d=draw(st.sampled_from(["360", "180"])), conv_q=draw(st.sampled_from(["360", "180"])), method=draw(st.sampled_from(["nearest", "idw", "bbox", None])),
                qi=[draw(st.integers(0, len(lams) - 1)) for _ in range(draw(st.integers(1, 3)))], off=draw(st.sampled_from([0.0, 0.3, -0.7])), tol=draw(st.sampled_from([2.0, 5.0, 400.0])),
                as_array=draw(st.booleans()), pre=draw(st.booleans()), backing=draw(st.sampled_from(["numpy", "dask"])), coords=draw(st.booleans()))


def check_sel(case, ctx):
    from .c14 import express, make_dataset

    lats = [0.5 * i for i in range(len(case["lams"]))]
    ds = make_dataset(case["lams"], lats, case["conv_d"], with_time=True)
    if case["coords"]:
        ds = ds.set_coords(["lon", "lat"])
    if case["backing"] == "dask":
        ds = ds.chunk({"site": 1})
    ds.attrs["title"] = "stations"
    qlon = [express((case["lams"][i] + case["off"]) % 360.0, case["conv_q"]) for i in case["qi"]]
    qlat = [lats[i] for i in case["qi"]]
    if case["as_array"]:
        qlon, qlat = np.array(qlon), np.array(qlat)
    kw = dict(method=case["method"], tolerance=case["tol"])
    pre = None
    if case["pre"]:
        pre = (np.array(ds.lon.values, dtype=float), np.array(ds.lat.values, dtype=float))
        kw.update(dset_lons=pre[0], dset_lats=pre[1])
    before = dict(ds=snap.snap(ds), qlon=snap.freeze(qlon), qlat=snap.freeze(qlat), pre=snap.freeze(pre), kw=snap.freeze({k: v for k, v in kw.items()}))
    verdict = "ok"
    try:
        out = ds.spec.sel(qlon, qlat, **kw)
        out.compute()
    except Exception as e:  # noqa: BLE001
        verdict = type(e).__name__
    after = dict(ds=snap.snap(ds), qlon=snap.freeze(qlon), qlat=snap.freeze(qlat), pre=snap.freeze(pre), kw=snap.freeze({k: v for k, v in kw.items()}))
    d = snap.diff(before, after)
    if d:
        raise Violation("input-modified", "sel(method=%r) [dataset %s, query %s, %s]: %s" % (case["method"], case["conv_d"], case["conv_q"], verdict, d))
    ctx.nt(True)
    ctx.label("method=%s" % case["method"], "conv=%s/%s" % (case["conv_d"], case["conv_q"]), "pre=%s" % case["pre"], "query=%s" % ("array" if case["as_array"] else "list"), verdict)
    ctx.show(dict(stations=case["lams"], conv=[case["conv_d"], case["conv_q"]], method=case["method"], query_lons=[float(v) for v in qlon], pre=case["pre"], verdict=verdict))


# ----------------------------------------------------------------------------- construction helpers, readers

@st.composite
def helper_case(draw):
    fg = draw(gen.freq_grid(4, 10))
    dg = draw(gen.dir_grid(4, 12))
    return dict(fg=fg, dg=dg, which=draw(st.sampled_from(["construct_partition", "shapes", "read_ww3", "read_ncswan", "read_wwm", "read_era5", "read_ndbc", "read_wavespectra", "partition_and_reconstruct", "scaled",
                                                                     "chunks_dict", "read_ww3_file_chunks", "read_ncswan_file_chunks", "from_ww3_stdnames", "from_ncswan_stdnames", "from_wwm_direct", "from_era5_direct", "acc_stats_args", "acc_bbox_args", "acc_interp_args", "acc_plot_kwargs", "acc_plot_kwargs", "acc_split_args"])),
                specs=[draw(gen.spectrum(kinds=("multinoisy", "sparse"))) for _ in range(2)], nt=draw(st.integers(1, 3)), ns=draw(st.sampled_from([2, 4])),
                winds=[dict(wspd=draw(st.floats(1, 30)), wdir=draw(st.floats(0, 360)), dpt=draw(st.sampled_from([5.0, 50.0])))], latlon_time=draw(st.booleans()), as_list=draw(st.booleans()))


def check_helpers(case, ctx):
    import xarray as xr
    from wavespectra import construct
    from wavespectra.construct import direction as D, frequency as F
    from wavespectra.core.utils import scaled
    from wavespectra.input.dataset import read_dataset

    f = np.array(case["fg"]["f"])
    d = np.array(case["dg"]["d"])
    which = case["which"]
    args = {}
    if which in ("construct_partition", "shapes"):
        hs = xr.DataArray([1.0, 2.5], coords={"site": [0, 1]}, dims=("site",))
        dm = xr.DataArray([10.0, 350.0], coords={"site": [0, 1]}, dims=("site",))
        fk = dict(freq=list(f) if case["as_list"] else f, fp=float(f[len(f) // 2]), hs=hs, gamma=2.0)
        dk = dict(dir=list(d) if case["as_list"] else d, dm=dm, dspr=25.0)
        args = dict(freq_kwargs=fk, dir_kwargs=dk, defaults=construct.construct_partition.__defaults__)
        call = (lambda: construct.construct_partition("jonswap", "cartwright", freq_kwargs=fk, dir_kwargs=dk)) if which == "construct_partition" else (
            lambda: (F.jonswap(**fk), F.tma(dep=20.0, **fk), F.gaussian(freq=fk["freq"], hs=hs, fp=fk["fp"], gw=0.02), D.cartwright(**dk), D.asymmetric(dir=dk["dir"], freq=fk["freq"], dm=dm, dpm=dm, dspr=30.0, dpspr=20.0, fm=0.1, fp=0.08)))
    elif which.startswith("acc_"):
        # accessor calls whose arguments are caller-owned mutable objects (lists, dictionaries, arrays)
        da = gen.build_dataarray(case["fg"], case["dg"], case["specs"], [["time", 2]], dtype="float64")
        via = da.to_dataset(name="efth") if case["latlon_time"] else da
        if which == "acc_stats_args":
            st_ = ["hs", "tp", "dm"] if case["as_list"] else {"hs": {}, "tp": {"smooth": False}, "momf": {"mom": 1}}
            nm = ["Hs", "Tp", "Third"]
            args = dict(stats=st_, names=nm)
            call = lambda: via.spec.stats(st_, names=nm, fmin=float(f[0]), fmax=float(f[-1]))  # noqa: E731
        elif which == "acc_bbox_args":
            bb = [dict(fmin=float(f[0]), fmax=float(f[1]), dmin=0.0, dmax=180.0), dict(fmin=float(f[2]), fmax=float(f[-1]))]
            args = dict(bboxes=bb)
            call = lambda: da.spec.partition.bbox(bb)  # noqa: E731
        elif which == "acc_interp_args":
            tf = list(0.5 * (f[:-1] + f[1:])) if case["as_list"] else 0.5 * (f[:-1] + f[1:])
            td = np.array(sorted(d % 360.0))
            other = xr.DataArray(np.ones((2, 2)), coords=dict(freq=[float(f[0]), float(f[1])], dir=[0.0, 90.0]), dims=("freq", "dir"), name="efth")
            args = dict(freq=tf, dir=td, other=snap.snap(other))
            call = lambda: (via.spec.interp(freq=tf, dir=td), da.spec.interp_like(other), da.spec.rotate(15.0))  # noqa: E731
        elif which == "acc_split_args":
            lim = dict(fmin=float(f[1]), fmax=float(f[-2]), dmin=10.0, dmax=200.0)
            args = dict(lim=lim)
            call = lambda: (da.spec.split(**lim), da.spec.stats(["hs"], **lim))  # noqa: E731
        else:
            import matplotlib

            matplotlib.use("Agg")
            import matplotlib.pyplot as plt

            kws = dict(facecolor="white") if case["as_list"] else {}
            cb = dict(shrink=0.8)
            lev = [0.1, 0.2, 0.5]
            kind = ["contourf", "contour", "pcolormesh"][case["nt"] % 3]
            args = dict(subplot_kws=kws, cbar_kwargs=cb, levels=lev)

            def call():
                try:
                    one = via.isel(time=0)
                    extra = dict(cbar_kwargs=cb) if kind != "contour" else {}
                    return one.spec.plot(kind=kind, subplot_kws=kws, levels=lev if kind != "pcolormesh" else None, **extra)
                finally:
                    plt.close("all")
    elif which in ("chunks_dict", "read_ww3_file_chunks", "read_ncswan_file_chunks"):
        # the chunks dictionary a caller hands to a file reader (keys in wavespectra naming are translated for the file)
        from wavespectra.input import chunks_dict
        from wavespectra.input.ww3 import MAPPING as WW3_MAP
        from wavespectra import read_ww3, read_ncswan

        ch = {"time": 1, "site": 1} if case["as_list"] else {"site": 2, "freq": 2, "dir": -1}
        args = dict(chunks=ch)
        if which == "chunks_dict":
            call = lambda: chunks_dict(ch, WW3_MAP)  # noqa: E731
        else:
            T = native.truth(case["fg"], case["dg"], case["specs"], case["nt"], case["ns"], case["winds"], gen)
            nds = native.ww3(T, latlon_time=False) if which.startswith("read_ww3") else native.ncswan(T, latlon_time=False)
            wd = os.path.join(env.workdir(), "c17r")
            os.makedirs(wd, exist_ok=True)
            pth = os.path.join(wd, "native.nc")
            nds.to_netcdf(pth, format="NETCDF3_64BIT")
            reader = read_ww3 if which.startswith("read_ww3") else read_ncswan

            def call():
                try:
                    r = reader(pth, chunks=ch)
                    r.load()
                    r.close()
                    return None
                finally:
                    shutil.rmtree(wd, ignore_errors=True)
    elif which.startswith("from_"):
        # the converters called directly, also on datasets that already carry the wavespectra names (native units and direction
        # sense): no renaming is needed then, which is where a converter could end up working on the caller's object
        from wavespectra.input.ww3 import from_ww3
        from wavespectra.input.ncswan import from_ncswan
        from wavespectra.input.wwm import from_wwm
        from wavespectra.input.era5 import from_era5

        T = native.truth(case["fg"], case["dg"], case["specs"], case["nt"], case["ns"], case["winds"], gen)
        if which == "from_ww3_stdnames":
            nds = native.ww3(T, latlon_time=case["latlon_time"])
            nds = nds.rename({k: v for k, v in dict(frequency="freq", direction="dir", station="site", longitude="lon", latitude="lat", wnd="wspd", wnddir="wdir").items() if k in nds.variables or k in nds.dims})
            fn = from_ww3
        elif which == "from_ncswan_stdnames":
            nds = native.ncswan(T, latlon_time=case["latlon_time"])
            nds = nds.rename({k: v for k, v in dict(frequency="freq", direction="dir", points="site", longitude="lon", latitude="lat", density="efth").items() if k in nds.variables or k in nds.dims})
            fn = from_ncswan
        elif which == "from_wwm_direct":
            nds = native.wwm(T)
            fn = from_wwm
        else:
            nds = native.era5(T, nlat=2)
            fn = lambda x: from_era5(x, freqs=list(f), dirs=list(d))  # noqa: E731
        if case["as_list"]:
            nds = nds.chunk()
        nds.attrs["source"] = "caller"
        args = dict(ds=nds)
        call = lambda: fn(nds)  # noqa: E731
    else:
        T = native.truth(case["fg"], case["dg"], case["specs"], case["nt"], case["ns"], case["winds"], gen)
        if which == "read_ww3":
            nds = native.ww3(T, latlon_time=case["latlon_time"])
        elif which == "read_ncswan":
            nds = native.ncswan(T, latlon_time=case["latlon_time"])
        elif which == "read_wwm":
            nds = native.wwm(T)
        elif which == "read_era5":
            nds = native.era5(T, nlat=2)
        elif which == "read_ndbc":
            ef = T["E"][:, 0].sum(axis=-1) * (360.0 / len(d))
            z = np.zeros_like(ef)
            nds = native.ndbc(ef, f, z + 40.0, z + 50.0, z + 0.3, z + 0.1)
        else:
            nds = native.ww3(T, latlon_time=False)
            nds = read_dataset(nds)
        nds.attrs["source"] = "caller"
        args = dict(ds=nds)
        if which == "read_era5":
            kw = dict(freqs=list(f), dirs=list(d))
            args["kw"] = kw
            call = lambda: read_dataset(nds, **kw)  # noqa: E731
        elif which == "partition_and_reconstruct":
            call = lambda: construct.partition_and_reconstruct(nds, parts=2)  # noqa: E731
        elif which == "scaled":
            call = lambda: scaled(nds, 2.0)  # noqa: E731
        else:
            call = lambda: read_dataset(nds)  # noqa: E731
    before = snap.freeze(args)
    verdict = "ok"
    try:
        r = call()
        for x in (r if isinstance(r, tuple) else (r,)):
            if hasattr(x, "compute"):
                x.compute()
    except Exception as e:  # noqa: BLE001
        verdict = type(e).__name__
    if which == "acc_interp_args":
        args["other"] = snap.snap(other)
    d_ = snap.diff(before, snap.freeze(args))
    if d_:
        raise Violation("input-modified", "%s (%s): %s" % (which, verdict, d_))
    ctx.nt(True)
    ctx.label("helper=" + which, verdict)
    ctx.show(dict(helper=which, grid=[len(f), len(d)], verdict=verdict))


# ----------------------------------------------------------------------------- writers

@st.composite
def writer_case(draw):
    fg = draw(gen.freq_grid(3, 8))
    dg = draw(gen.dir_grid(4, 12, spacing=("whole",)))
    layout = draw(st.sampled_from(["station", "station", "grid"]))
    nt = draw(st.integers(1, 3))
    return dict(fg=fg, dg=dg, layout=layout, nt=nt, ns=draw(st.integers(1, 3)), specs=[draw(gen.spectrum(kinds=("multinoisy", "sparse"))) for _ in range(3)],
                writer=draw(st.sampled_from(["to_swan", "to_octopus", "to_json", "to_netcdf", "to_ww3", "to_funwave", "to_swan_gz"])), backing=draw(st.sampled_from(["numpy", "dask", "view"])),
                winds=draw(st.booleans()), nolatlon=draw(st.integers(0, 3)) == 0, give_lonlat=draw(st.booleans()), notime=draw(st.integers(0, 3)) == 0,
                lonlat_kind=draw(st.sampled_from(["site-var", "site-var", "site-coord", "scalar-var", "scalar-coord"])), scalar_time=draw(st.booleans()))


def build_wavespectra_dataset(case, backing="numpy"):
    """A dataset in the wavespectra convention (station or grid layout) with lon/lat and optional winds."""
    import xarray as xr

    if case["layout"] == "grid":
        dims = [["time", case["nt"]], ["lat", 2], ["lon", max(2, case["ns"])]]
    else:
        dims = [["time", case["nt"]], ["site", case["ns"]]]
    scalar_time = case.get("notime") and case.get("scalar_time")
    if scalar_time:
        dims[0] = ["time", 1]
    elif case.get("notime"):
        dims = dims[1:]
    x = gen.build_dataarray(case["fg"], case["dg"], case["specs"], dims, dtype="float64")
    if scalar_time:
        # one time step picked out of a series: no time dimension, a scalar time coordinate
        x = x.isel(time=0)
        x = x.copy(data=np.ascontiguousarray(x.values))
        dims = dims[1:]
    x, parent = _backed(x, backing)
    ds = x.to_dataset(name="efth")
    if case["layout"] == "station" and not case.get("nolatlon"):
        kind = case.get("lonlat_kind", "site-var")
        if kind.startswith("scalar"):
            ds["lon"], ds["lat"] = ((), 150.0), ((), -30.0)
        else:
            ds["lon"] = (("site",), 150.0 + np.arange(case["ns"]) * 0.5)
            ds["lat"] = (("site",), -30.0 - np.arange(case["ns"]) * 0.25)
        if kind.endswith("coord"):
            ds = ds.set_coords(["lon", "lat"])
    lead = [d for d, _ in dims]
    if case.get("winds"):
        shape = [n for _, n in dims]
        ds["wspd"] = (lead, np.full(shape, 8.0))
        ds["wdir"] = (lead, np.full(shape, 200.0))
        ds["dpt"] = (lead, np.full(shape, 30.0))
    ds.attrs["title"] = "caller dataset"
    ds.efth.attrs["units"] = "m2/Hz/deg"
    return ds, parent


def check_writers(case, ctx):
    ds, parent = build_wavespectra_dataset(case, case["backing"])
    work = os.path.join(env.workdir(), "c17")
    os.makedirs(work, exist_ok=True)
    w = case["writer"]
    path = os.path.join(work, "out." + {"to_swan": "spec", "to_swan_gz": "spec.gz", "to_octopus": "oct", "to_json": "json", "to_netcdf": "nc", "to_ww3": "nc", "to_funwave": "txt"}[w])
    kw = {}
    if w == "to_netcdf":
        kw = dict(ncformat="NETCDF3_64BIT", compress=False, packed=False)
    if w in ("to_swan", "to_swan_gz", "to_octopus") and case.get("nolatlon") and case["layout"] == "station" and case.get("give_lonlat"):
        kw = dict(lons=[151.0 + i for i in range(case["ns"])], lats=np.array([-20.0 - i for i in range(case["ns"])]))
    before = dict(ds=snap.snap(ds), parent=snap.freeze(parent) if parent is not None else None, kw=snap.freeze(kw))
    verdict = "ok"
    try:
        getattr(ds.spec, "to_swan" if w == "to_swan_gz" else w)(path, **kw)
    except Exception as e:  # noqa: BLE001
        verdict = type(e).__name__
    finally:
        after = dict(ds=snap.snap(ds), parent=snap.freeze(parent) if parent is not None else None, kw=snap.freeze(kw))
        shutil.rmtree(work, ignore_errors=True)
    d = snap.diff(before, after)
    if d:
        raise Violation("input-modified", "%s on a %s-backed %s dataset (%s): %s" % (w, case["backing"], case["layout"], verdict, d))
    ctx.nt(True)
    ctx.label("writer=" + w, "backing=" + case["backing"], "layout=" + case["layout"] + ("-nolatlon" if case.get("nolatlon") and case["layout"] == "station" else "") + ("-scalartime" if case.get("notime") and case.get("scalar_time") else "-notime" if case.get("notime") else ""),
              "lonlat=" + case.get("lonlat_kind", "site-var"), verdict)
    ctx.show(dict(writer=w, backing=case["backing"], layout=case["layout"], nt=case["nt"], verdict=verdict))


def facets():
    return [
        Facet("accessor", acc_case(), check_accessor, quick=400, thorough=24000, qshards=8),
        Facet("select", sel_case(), check_sel, quick=300, thorough=12000, qshards=2),
        Facet("helpers", helper_case(), check_helpers, quick=360, thorough=8000, qshards=3),
        Facet("writers", writer_case(), check_writers, quick=400, thorough=12000, qshards=4),
    ]
