"""C20 - valid spectra never crash the library, down to the native code."""
import math
import os
import re
import shutil
import subprocess

import numpy as np
from hypothesis import strategies as st

from .. import core, env, gen, native, ops
from ..core import Custom, Facet, Violation
from ..ref import stats as R
from .c04 import check_values as c04_check_values
from .c05 import winds_of

PROP = "C20"
RULE = (
    "Python layer: degenerate spectra (all zero, constant, single non-zero bin, peak on the first / last frequency, "
    "exactly one frequency in the alpha tail-fit window, one or two directions, one frequency) on grids from 1x1 up x "
    "every statistic, transform and non-experimental partition method of the operation catalogue; outputs must be "
    "returned (non-finite only where the reference says the case is degenerate: zero energy, no interior peak, negative "
    "gw radicand, Hs below 1 mm for sw). Invalid-argument catalogue: every entry must raise exactly ValueError. Native "
    "layer: the tree's specpart.c linked into a clang ASan+UBSan driver - every content over a small alphabet on every "
    "shape with up to 9/12/16 cells, pseudo-random contents on shapes up to 24x40 with shapes interleaved so that the "
    "static buffers are reallocated, Hypothesis cases piped to the same binary, and a libFuzzer campaign (bytes decoded "
    "to shape, level count and contents, oracle inside the target). Native oracle: no sanitizer report, labels within "
    "0..n, the C04 invariants, every call returns within a 10 s CPU-time cap. Non-trivial = a degenerate or invalid class "
    "(python), at least two basins or a shape change (native); distinct by canonical hash / by construction / by FNV hash."
)
ASSUMPTIONS = [
    "hp01 is excluded (documented as under development)",
    "memory safety is decided for the standalone link of specpart.c (same source, not the same binary, as the extension); leak detection is off (the neighbour table is allocated twice on every shape change - a leak, not one of C20's clauses)",
    "the libFuzzer campaign is bounded by a run count; reaching it is 'budget reached', not a proof",
    "operations are applied only to grids that satisfy their documented requirements (e.g. interpolation between two existing frequencies needs two frequencies)",
]

DEGENERATE = ["zero", "constant", "single_bin", "monotone_up", "monotone_down", "alpha_one", "two_dirs", "one_dir", "one_freq", "plain"]

ALWAYS_FINITE = {"hs", "hs_notail", "hrms", "momf1", "momf3", "oned", "to_energy", "mss", "mss_depth", "uss", "uss_x", "uss_y_depth", "celerity", "wavelen", "momd1", "crsd", "dp"}
NEED_ENERGY = {"tm01", "tm02", "goda", "dm", "dspr", "swe", "fdspr", "hmax"}
NEED_PEAK = {"tp", "tp_discrete", "fp", "dpm", "dpspr", "alpha"}
NEED_TWO_DIRS = {"rotate", "rotate_bin", "interp_dir", "interp_both", "interp_nom0"}
TRANSFORMS = {"smooth33", "smooth_f", "smooth_d5", "interp_freq", "interp_dir", "interp_both", "interp_nom0", "rotate", "rotate_bin", "split_f", "split_fd", "scale_by_hs",
              "ptm1", "ptm2", "ptm3", "ptm4", "ptm5", "ptm5_node", "bbox", "ptm1_smooth"}


@st.composite
def degen_case(draw):
    cls = draw(st.sampled_from(DEGENERATE))
    nf = 1 if cls == "one_freq" else draw(st.integers(1, 8))
    nd = 1 if cls == "one_dir" else 2 if cls == "two_dirs" else draw(st.integers(1, 8))
    if cls == "alpha_one":
        nf = draw(st.integers(5, 9))
    fg = draw(gen.freq_grid(nf, nf))
    if cls == "alpha_one":
        # log grid with ratio 1.3: peak three bins below the top -> exactly one frequency in (1.35 fp, 2 fp)
        f0 = draw(st.sampled_from([0.04, 0.08]))
        fg = dict(kind="log", tail="below" if f0 * 1.3 ** (nf - 1) <= 0.333 else "above", f=[round(f0 * 1.3**i, 6) for i in range(nf)])
    dg = draw(gen.dir_grid(nd, nd, spacing=("whole", "dyadic")))
    dims = draw(gen.extra_dims(maxdims=1, maxsize=2))
    names = draw(st.lists(st.sampled_from(sorted(ops.CATALOGUE)), unique=True, min_size=14, max_size=18))
    return dict(cls=cls, fg=fg, dg=dg, dims=dims, names=names, op=draw(ops.op_spec(has_dir=True, nf=3)), amp=draw(st.sampled_from([1e-6, 1.0, 50.0])),
                dtype=draw(st.sampled_from(["float64", "float32"])), pos=draw(st.integers(0, 63)), winds=[dict(wspd=draw(st.floats(0, 40)), wdir=draw(st.floats(0, 360)), dpt=draw(st.sampled_from([1.0, 30.0, 3000.0])))])


def build_degenerate(case):
    nf, nd = len(case["fg"]["f"]), case["dg"]["n"]
    cls = case["cls"]
    E = np.zeros((nf, nd))
    if cls == "constant":
        E[:] = 1.0
    elif cls == "single_bin":
        E[case["pos"] % nf, (case["pos"] // 8) % nd] = 1.0
    elif cls == "monotone_up":
        E[:] = (np.arange(nf)[:, None] + 1.0) * (1.0 + 0.1 * np.arange(nd)[None, :])
    elif cls == "monotone_down":
        E[:] = (nf - np.arange(nf)[:, None]) * (1.0 + 0.1 * np.arange(nd)[None, :])
    elif cls == "alpha_one":
        p = nf - 4
        E[:] = 0.05
        E[p] = 1.0
        E[p - 1] = 0.4
        E[p + 1] = 0.4
    elif cls in ("two_dirs", "one_dir", "one_freq", "plain"):
        rs = np.random.RandomState(case["pos"])
        E[:] = rs.rand(nf, nd) + 0.01
        if nf >= 3:
            E[nf // 2] += 2.0
    E = E * case["amp"]
    tpl = gen.build_dataarray(case["fg"], case["dg"], [dict(kind="zero", rs=0, amp=1.0)], case["dims"], dtype=case["dtype"])
    shape = tpl.shape[:-2]
    data = np.broadcast_to(E.astype(case["dtype"]), shape + (nf, nd)).copy()
    return tpl.copy(data=data)


def _alpha_overflows(ref, f, tp):
    """Phillips' alpha by the documented tail fit, in float64: True when it is beyond float32 range
    (the formula multiplies by exp(1.25 (fp/f)^4), astronomically large when the fitted bins lie far below fp)."""
    if not (tp > 0):
        return False
    f32 = np.asarray(f, dtype=np.float32).astype(np.float64)
    fp = float(np.float32(1.0 / tp))
    pos = [i for i in range(len(f32)) if 1.35 * fp < f32[i] < 2.0 * fp]
    n = len(f32)
    if len(pos) == 0:
        pos = [n - 2, n - 1]
    elif len(pos) == 1:
        pos = [pos[0] - 1, pos[0]] if pos[0] == n - 1 else [pos[0], pos[0] + 1]
    with np.errstate(over="ignore"):
        val = (2 * math.pi) ** 4 / 9.80665**2 / (pos[-1] - pos[0] + 1) * sum(ref.S[i] * f32[i] ** 5 * np.exp(np.float64(1.25 * (fp / f32[i]) ** 4)) for i in pos)
    return (not math.isfinite(val)) or val > 1e37


def _row_unidirectional(ref):
    pk = ref.peak_index()
    if not pk:
        return True
    row = ref.E[pk[0]]
    return int(np.sum(row > 0)) <= 1


def check_degenerate(case, ctx):
    from .c01 import _positions

    x = build_degenerate(case)
    aux = winds_of(case, x)
    f, d = np.array(case["fg"]["f"]), np.array(case["dg"]["d"])
    nf = len(f)
    _, _, E = next(iter(_positions(x, True)))
    ref = R.Spec(E, f, d)
    energy = ref.momf(0) > 0
    peak = bool(ref.peak_index())
    ctx.label("class=" + case["cls"], "grid=%s" % ("1x1" if nf == 1 and len(d) == 1 else "%sx%s" % ("1" if nf == 1 else "2" if nf == 2 else "3+", "1" if len(d) == 1 else "2" if len(d) == 2 else "3+")),
              "energy" if energy else "zero-energy", "peak" if peak else "no-interior-peak")
    ran = []
    for name in case["names"]:
        if nf < ops.CATALOGUE[name][1]:
            continue
        if len(d) < 2 and name in NEED_TWO_DIRS:
            continue  # interpolating along the direction axis needs two direction bins to interpolate between
        spec = dict(case["op"], op=name)
        with ctx.lib("%s on a %s spectrum (grid %dx%d)" % (name, case["cls"], nf, len(d))):
            r = ops.apply(spec, x, aux)
            parts = {k: np.asarray(v.compute().values, dtype=float) for k, v in ops.parts_of(r).items()}
        ran.append(name)
        ctx.evals += 1
        for k, v in parts.items():
            bad = ~np.isfinite(v)
            if not bad.any():
                continue
            allowed = False
            if name in NEED_ENERGY or k in ("tm01", "tm02", "dm", "dspr", "tm01_band", "dm_band"):
                allowed = not energy or (name == "fdspr") or (name == "stats_band")
            if name in NEED_PEAK or k in ("tp", "dpm"):
                allowed = allowed or not peak
            if name == "gw":
                rad, scale = ref.gw_radicand()
                allowed = (not energy) or math.isnan(rad) or rad < 1e-9 * scale
            # widths / spreads are square roots of differences that are zero (to rounding) for a spectrum confined
            # to one frequency / one direction: the degenerate "zero width" class
            zero_fwidth = energy and abs(ref.sw_radicand()) <= 1e-9
            zero_dwidth = energy and abs(ref.dspr_radicand()[0]) <= 1e-9
            if name == "sw":
                allowed = (not energy) or ref.hs() < 0.001 * (1 + 1e-9) or zero_fwidth
            if name == "swe":
                allowed = (not energy) or zero_fwidth or abs(ref.swe_radicand()) <= 1e-9
            if name == "dspr" or k == "dspr":
                allowed = (not energy) or zero_dwidth
            if name == "gw":
                allowed = allowed or zero_fwidth
            if name in ("stats_list",):
                allowed = allowed or (k in ("tm02", "dm", "dspr") and not energy) or (k in ("tp", "dpm") and not peak)
            if name in ("dpspr", "fdspr"):
                # per-frequency spreads: rows without energy or confined to one direction have no defined spread
                allowed = True if name == "fdspr" else ((not peak) or len(d) == 1 or _row_unidirectional(ref))
            if name == "gamma":
                allowed = False
            if name == "alpha" and peak and not allowed:
                tpv = float(np.asarray(x.spec.tp().values, dtype=float).ravel()[0])
                allowed = _alpha_overflows(ref, f, tpv)
                if allowed:
                    ctx.label("alpha-beyond-float32(overflow allowed)")
            if not allowed:
                raise Violation("non-finite", "%s[%s] is non-finite (%d of %d values) on a %s spectrum with %s and %s (grid %dx%d, dtype %s)" % (
                    name, k, int(bad.sum()), bad.size, case["cls"], "energy" if energy else "zero energy", "an interior peak" if peak else "no interior peak", nf, len(d), case["dtype"]))
    ctx.nt(case["cls"] != "plain" or nf == 1 or len(d) <= 2)
    ctx.evals -= 1
    ctx.show(dict(cls=case["cls"], grid=[nf, len(d)], dims=case["dims"], ops=ran, dtype=case["dtype"]))


# ----------------------------------------------------------------------------- invalid arguments

INVALID = ["split_freversed", "split_fequal", "split_dreversed", "smooth_even_f", "smooth_even_d", "bbox_overlap", "bbox_fmin_ge_fmax", "stats_unknown", "stats_noncallable",
           "stats_names_len", "stats_not_container", "dm_on_1d", "dspr_on_1d", "momd_on_1d", "uss_x_on_1d", "dp_on_1d", "dpm_on_1d", "dpspr_on_1d", "sel_unknown_method",
           "fit_nothing", "partition_bad_type", "interp_freq_outside"]


@st.composite
def invalid_case(draw):
    fg = draw(gen.freq_grid(3, 8))
    dg = draw(gen.dir_grid(3, 8, spacing=("whole",)))
    return dict(fg=fg, dg=dg, dims=draw(gen.extra_dims(maxdims=1, maxsize=2)), spec=draw(gen.spectrum(kinds=("multinoisy", "sparse", "zero"))))


def check_invalid(case, ctx):
    from wavespectra.partition.partition import Partition

    x = gen.build_dataarray(case["fg"], case["dg"], [case["spec"]], case["dims"])
    one = x.spec.oned()
    f = np.array(case["fg"]["f"])
    calls = {
        "split_freversed": lambda: x.spec.split(fmin=float(f[-1]), fmax=float(f[0])),
        "split_fequal": lambda: x.spec.split(fmin=float(f[1]), fmax=float(f[1])),
        "split_dreversed": lambda: x.spec.split(dmin=200.0, dmax=100.0),
        "smooth_even_f": lambda: x.spec.smooth(freq_window=2, dir_window=3),
        "smooth_even_d": lambda: x.spec.smooth(freq_window=3, dir_window=4),
        "bbox_overlap": lambda: x.spec.partition.bbox([dict(fmin=0.0, fmax=1.0, dmin=0.0, dmax=200.0), dict(fmin=0.0, fmax=1.0, dmin=100.0, dmax=300.0)]),
        "bbox_fmin_ge_fmax": lambda: x.spec.partition.bbox([dict(fmin=0.5, fmax=0.1)]),
        "stats_unknown": lambda: x.spec.stats(["hs", "nosuchstat"]),
        "stats_noncallable": lambda: x.spec.stats(["hs", "freq"]),
        "stats_names_len": lambda: x.spec.stats(["hs", "tp"], names=["a"]),
        "stats_not_container": lambda: x.spec.stats("hs"),
        "dm_on_1d": lambda: one.spec.dm(),
        "dspr_on_1d": lambda: one.spec.dspr(),
        "momd_on_1d": lambda: one.spec.momd(1),
        "uss_x_on_1d": lambda: one.spec.uss_x(),
        "dp_on_1d": lambda: one.spec.dp(),
        "dpm_on_1d": lambda: one.spec.dpm(),
        "dpspr_on_1d": lambda: one.spec.dpspr(),
        "sel_unknown_method": lambda: _stations().spec.sel([150.0], [-30.0], method="cubic"),
        "fit_nothing": lambda: x.spec.fit_jonswap(spectra=False, params=False),
        "partition_bad_type": lambda: Partition(np.zeros((3, 3))),
        "interp_freq_outside": lambda: x.spec._interp_freq(float(f[-1]) * 2),
    }
    # the whole catalogue on every generated dataset (a sampled entry would leave some unvisited)
    for w in INVALID:
        try:
            calls[w]()
        except ValueError:
            pass
        except Exception as e:  # noqa: BLE001
            raise Violation("wrong-exception", "%s raised %s(%s) instead of ValueError" % (w, type(e).__name__, str(e)[:200]))
        else:
            raise Violation("accepted", "%s was accepted instead of raising ValueError" % w)
        ctx.label("invalid=" + w)
        ctx.evals += 1
    ctx.evals -= 1
    ctx.nt(True)
    ctx.extra_nt = len(INVALID) - 1
    ctx.show(dict(invalid=INVALID, grid=[len(f), case["dg"]["n"]], dims=case["dims"], spectrum=case["spec"]["kind"]))


def _stations():
    from .c14 import make_dataset

    return make_dataset([150.0, 151.0], [-30.0, -31.0], "360")


# ----------------------------------------------------------------------------- native layer

def _native(name, mode_args):
    def fn(prop, tier, seed, shard, nshards):
        args = mode_args(tier, seed, shard, nshards)
        res = native.run_batch(args, name, prop)
        if not res.violation and not res.error:
            res.exhaustive = args[0] == "enum"
            res.samples = [dict(driver_args=[str(a) for a in args], summary=res.classes)]
        return res

    return fn


fuzz = native.fuzz


@st.composite
def piped_case(draw):
    nk = draw(st.integers(1, 8))
    nth = draw(st.integers(1, 8))
    levels = draw(st.integers(2, 5))
    vals = draw(st.lists(st.integers(0, levels - 1), min_size=nk * nth, max_size=nk * nth))
    return dict(nk=nk, nth=nth, ihmax=draw(st.sampled_from([1, 2, 3, 4, 5, 7, 100, 1000])), values=[float(v) for v in vals])


def check_piped(case, ctx):
    """Hypothesis-generated cases run through the sanitizer-instrumented binary (they shrink and replay)."""
    a = np.array(case["values"], dtype=np.float32).reshape(case["nk"], case["nth"])
    verdict, lab, err = native.pipe().ask(a, case["ihmax"], shift=1)
    if verdict:
        raise Violation(verdict, err[-800:] if err else "native oracle: %s; map=%s" % (verdict, None if lab is None else lab.tolist()))
    ctx.nt(lab is not None and lab.max() >= 2)
    ctx.label("shape=%dx%d" % (min(case["nk"], 4), min(case["nth"], 4)), "ihmax=%d" % case["ihmax"])
    ctx.show(dict(shape=[case["nk"], case["nth"]], ihmax=case["ihmax"], values=case["values"][:32]))


@st.composite
def threads_case(draw):
    shapes = [(draw(st.integers(12, 30)), draw(st.integers(12, 36))) for _ in range(draw(st.sampled_from([1, 1, 2])))]
    return dict(shapes=shapes, n=draw(st.integers(48, 128)), workers=draw(st.sampled_from([2, 8, 16])), ihmax=draw(st.sampled_from([50, 100, 200])),
                specs=[draw(gen.spectrum(kinds=("multinoisy", "multi"))) for _ in range(3)])


def check_threads(case, ctx):
    """The extension's routine entered from several threads at once (what dask's threaded scheduler does with a
    chunked dataset): every call must return the labelling the same input gets on its own, labels within 1..n."""
    from concurrent.futures import ThreadPoolExecutor

    from wavespectra.partition import specpart

    maps = []
    for p in range(case["n"]):
        nf, nd = case["shapes"][p % len(case["shapes"])]
        E = gen.build_spectrum(case["specs"][p % 3], nf, nd)
        maps.append(np.ascontiguousarray(np.roll(E, p, axis=1) * (1 + p % 5), dtype=np.float32))
    with ctx.lib("specpart.partition (one thread)"):
        serial = [np.array(specpart.partition(m, case["ihmax"])) for m in maps]
    with ctx.lib("specpart.partition (%d threads)" % case["workers"]):
        with ThreadPoolExecutor(case["workers"]) as ex:
            par = list(ex.map(lambda m: np.array(specpart.partition(m, case["ihmax"])), maps))
    for p, (a, b) in enumerate(zip(serial, par)):
        if b.min() < 1:
            raise Violation("threads-label-range", "call %d of %d (shape %s, %d threads): label %d outside 1..n" % (p, len(maps), maps[p].shape, case["workers"], b.min()))
        if not np.array_equal(a, b):
            raise Violation("threads-differs", "call %d of %d (shape %s, %d threads) returns another labelling than the same input on its own (%d bins differ)" % (p, len(maps), maps[p].shape, case["workers"], int((a != b).sum())))
    ctx.nt(max(int(a.max()) for a in serial) >= 2)
    ctx.evals += len(maps) - 1
    ctx.label("threads=%d" % case["workers"], "shapes=%d" % len(case["shapes"]))
    ctx.show(dict(shapes=case["shapes"], calls=len(maps), workers=case["workers"], basins=[int(a.max()) for a in serial[:6]]))


def facets():
    ih = "1,2,3,4,5,7,100,1000"
    return [
        Facet("degenerate", degen_case(), check_degenerate, quick=260, thorough=16000, qshards=8),
        Facet("invalid_arguments", invalid_case(), check_invalid, quick=40, thorough=1500, qshards=2),
        Custom("native_enum_a2", _native("native_enum_a2", lambda t, s, sh, n: ["enum", sh, n, 9 if t == "quick" else 16, 2, 8 if t == "quick" else 16, 0, ih]), check=c04_check_values),
        Custom("native_enum_a3", _native("native_enum_a3", lambda t, s, sh, n: ["enum", sh, n, 7 if t == "quick" else 12, 3, 8 if t == "quick" else 12, 0, ih]), check=c04_check_values),
        Custom("native_rand", _native("native_rand", lambda t, s, sh, n: ["rand", sh, n, (s + 17) % 1000003, 20000 if t == "quick" else 3000000, 24, 40, 6, ih]), check=c04_check_values),
        Custom("native_rand_8x8", _native("native_rand_8x8", lambda t, s, sh, n: ["rand", sh, n, (s + 29) % 1000003, 20000 if t == "quick" else 3000000, 8, 8, 4, ih]), check=c04_check_values),
        Custom("libfuzzer", fuzz, shards={"quick": 2, "thorough": 16}, check=c04_check_values),
        Facet("piped", piped_case(), check_piped, quick=600, thorough=30000, qshards=2),
        Facet("extension_threads", threads_case(), check_threads, quick=16, thorough=600, qshards=2,
              doc="the built extension entered from 2-16 threads at once on 48-128 distinct maps (one or two shapes)"),
    ]


def extra_evidence(merged, tier):
    ok = all(merged[k]["exhaustive"] for k in merged if k.startswith("native_enum"))
    sub = ["all {0,1} maps on shapes with <= %d cells" % (9 if tier == "quick" else 16), "all {0,1,2} maps on shapes with <= %d cells" % (7 if tier == "quick" else 12)]
    return dict(exhaustive_subspaces=sub if ok else [], sanitizers="clang -fsanitize=address,undefined -fno-sanitize-recover=undefined (leak detection off)")
