"""C14 - site selection finds the right stations on a sphere-aware longitude axis."""
import itertools
import math

import numpy as np
from hypothesis import strategies as st

from ..core import Enumeration, Facet, Violation

PROP = "C14"
RULE = (
    "A case is (station layout given by physical longitudes in [0,360) and latitudes, the convention the dataset is "
    "expressed in, query points / box corners with their own convention, tolerance 0..10, max_sites 1..6, with or "
    "without precomputed dset_lons/dset_lats, duplicated query points). Layouts favour stations either side of the 0 "
    "and 180 meridians. Oracle: a reference on physical longitudes (short-way difference) for nearest (argmin or "
    "AssertionError beyond tolerance), idw (1/d weights over the <= max_sites nearest within tolerance, the station "
    "itself at zero distance, NaN with fewer than two in range) and bbox (membership in the query's own convention, box "
    "+- tolerance kept inside that convention's range), plus the metamorphic relation that re-expressing the dataset "
    "(all three) or the query (nearest, idw) in the other convention selects the same stations, with longitudes reported "
    "in the query's convention. Non-trivial = a station and a query on opposite sides of a meridian seam, or conventions "
    "that differ; distinct by canonical hash. The exhaustive facet enumerates all layouts of <= 3 stations on a 12-point "
    "longitude lattice x 6 queries x both conventions on both sides."
)
ASSUMPTIONS = [
    "stations are identified through their data (efth = station index + 1), so a wrong station, order or weight is visible in the values",
    "exact longitudes 0 and 360 (and -180) are not generated (their convention is ambiguous); exactly 180 is, written as 180 in both conventions; distances within 1e-9 of the tolerance or of each other are not judged",
    "the query convention is [0,360] when all query longitudes are >= 0, else [-180,180] (the library's own detection rule)",
]

LATTICE = [0.5, 1.5, 45.5, 90.5, 178.5, 179.5, 180.5, 181.5, 270.5, 315.5, 358.5, 359.5]
QUERIES = [(0.25, 0.0), (359.75, 0.0), (179.75, 0.5), (180.25, -0.5), (91.0, 0.0), (300.0, 2.0)]


def express(lam, conv):
    """Physical longitude in [0,360) expressed in a convention."""
    if conv == "360":
        return lam
    return lam if lam <= 180.0 else lam - 360.0


def make_dataset(lams, lats, conv, with_time=False):
    import pandas as pd
    import xarray as xr

    n = len(lams)
    lon = np.array([express(x, conv) for x in lams], dtype=float)
    data = np.zeros((n, 2, 2)) + (np.arange(n)[:, None, None] + 1.0)
    ds = xr.Dataset(
        dict(efth=(("site", "freq", "dir"), data), lon=(("site",), lon), lat=(("site",), np.array(lats, dtype=float)), dpt=(("site",), 10.0 * (np.arange(n) + 1.0))),
        coords=dict(site=np.arange(n), freq=[0.1, 0.2], dir=[0.0, 180.0]),
    )
    if with_time:
        ds = ds.expand_dims(time=pd.date_range("2020-01-01", periods=2, freq="1h")).copy(deep=True)
        ds["lon"] = ds.lon.isel(time=0, drop=True)
        ds["lat"] = ds.lat.isel(time=0, drop=True)
    return ds


def pdist(lam_a, lat_a, lam_b, lat_b):
    d = abs(lam_a - lam_b) % 360.0
    d = min(d, 360.0 - d)
    return math.hypot(d, lat_a - lat_b)


def qconv(qlons):
    return "360" if min(qlons) >= 0 else "180"


def dconv(dlons):
    return "360" if min(dlons) >= 0 else "180"


def to_phys(x):
    return x % 360.0


def run_sel(ds, qlons, qlats, method, tol, max_sites=None, pre=False, **kw):
    a = dict(method=method, tolerance=tol)
    if method == "idw" and max_sites is not None:
        a["max_sites"] = max_sites
    if pre:
        a["dset_lons"] = np.array(ds.lon.values, dtype=float)
        a["dset_lats"] = np.array(ds.lat.values, dtype=float)
    a.update(kw)
    return ds.spec.sel(list(qlons), list(qlats), **a)


def stations_of(out):
    """Station indices (or weights) recovered from the data."""
    v = np.asarray(out.efth.transpose("site", ...).values, dtype=float)
    return v.reshape(v.shape[0], -1)[:, 0] - 1.0


def check_one(lams, lats, conv_d, qlams, qlats_, conv_q, tol, max_sites, pre, ctx, with_time=False, method=None):
    """Run all three methods on one configuration. qlams are physical longitudes of the query points."""
    ds = make_dataset(lams, lats, conv_d, with_time=with_time)
    qlons = [express(x, conv_q) for x in qlams]
    n = len(lams)
    cq = qconv(qlons)
    cd = dconv(ds.lon.values)
    seam = False
    for lq in qlams:
        for ls in lams:
            for m in (0.0, 180.0):
                a, b = (lq - m) % 360.0, (ls - m) % 360.0
                if min(abs(a - b), 360 - abs(a - b)) < 15 and (a < 180) != (b < 180):
                    seam = True
    ctx.nt(seam or cq != cd)
    methods = [method] if method else ["nearest", "idw", "bbox"]
    res = {}
    # ------------------------------------------------------------------ nearest
    if "nearest" in methods:
        want, fail, ambiguous = [], False, False
        for lq, pq in zip(qlams, qlats_):
            d = [pdist(lq, pq, ls, ps) for ls, ps in zip(lams, lats)]
            dm = min(d)
            # on coordinates that are multiples of 1/4 degree the distance arithmetic is exact (differences, squares, and the
            # square root of a perfect square), so "equal to the tolerance" is well defined there: it does not exceed it
            dyadic = all(float(v * 4.0).is_integer() for v in list(lams) + list(lats) + list(qlams) + list(qlats_) + [tol])
            if abs(dm - tol) < 1e-9 and not (dyadic and dm == tol):
                ambiguous = True
            if dyadic and dm == tol:
                ctx.label("nearest-exactly-at-tolerance")
            if dm > tol:
                fail = True
            want.append([i for i in range(n) if d[i] <= dm + 1e-9])
        if not ambiguous:
            try:
                out = run_sel(ds, qlons, qlats_, "nearest", tol, pre=pre)
                err = None
            except AssertionError as e:
                out, err = None, e
            except Exception as e:  # noqa: BLE001
                raise Violation("nearest-raised", "nearest raised %s(%s) for stations %s (%s) query %s (%s)" % (type(e).__name__, e, lams, conv_d, qlons, conv_q))
            if fail:
                if err is None:
                    raise Violation("nearest-tolerance", "a query point is farther than tolerance %r from every station but nearest returned stations %s" % (tol, stations_of(out).tolist()))
            else:
                if err is not None:
                    raise Violation("nearest-tolerance", "nearest failed (%s) although every query has a station within %r: stations %s (%s) query %s" % (err, tol, lams, conv_d, qlons))
                got = stations_of(out)
                if len(got) != len(qlams):
                    raise Violation("nearest-count", "%d stations returned for %d query points" % (len(got), len(qlams)))
                for k, g in enumerate(got):
                    if int(round(g)) not in want[k]:
                        raise Violation("nearest", "query (%r,%r) [%s convention]: got station %d at lon %r, nearest (short way round) is %s at %s; dataset lons %s" % (
                            qlons[k], qlats_[k], conv_q, int(round(g)), float(ds.lon.values[int(round(g))]), want[k], [lams[i] for i in want[k]], ds.lon.values.tolist()))
                _check_lon_convention(out, [lams[int(round(g))] for g in got], cq, cd, "nearest")
                if list(out.site.values) != list(range(len(got))):
                    raise Violation("site-index", "site coordinate %s" % out.site.values)
                res["nearest"] = [int(round(g)) for g in got]
            # documented options of nearest selection: missing="ignore" skips out-of-tolerance points, unique=True keeps the
            # first of repeated stations, exact=True demands zero distance
            if all(len(w) == 1 for w in want):
                dmin = [min(pdist(lq, pq, ls, ps) for ls, ps in zip(lams, lats)) for lq, pq in zip(qlams, qlats_)]
                keep = [w[0] for w, d in zip(want, dmin) if d <= tol]
                uniq = []
                for w in keep:
                    if w not in uniq:
                        uniq.append(w)
                for kw, exp in ((dict(missing="ignore"), keep), (dict(missing="ignore", unique=True), uniq)):
                    try:
                        o2 = run_sel(ds, qlons, qlats_, "nearest", tol, pre=pre, **kw)
                        g2 = [int(round(g)) for g in stations_of(o2)]
                    except ValueError:
                        g2 = []
                    except Exception as e:  # noqa: BLE001
                        raise Violation("nearest-options", "nearest(%s) raised %s(%s); stations %s (%s) query %s tol %r" % (kw, type(e).__name__, e, lams, conv_d, qlons, tol))
                    if g2 != exp:
                        raise Violation("nearest-options", "nearest(%s) returned stations %s, the nearest within tolerance are %s; stations %s (%s) query %s (%s) tol %r" % (kw, g2, exp, lams, conv_d, qlons, conv_q, tol))
                    if exp:
                        _check_lon_convention(o2, [lams[i] for i in exp], cq, cd, "nearest(%s)" % (kw,))
                if not fail:
                    raised = False
                    try:
                        run_sel(ds, qlons, qlats_, "nearest", tol, pre=pre, exact=True)
                    except AssertionError:
                        raised = True
                    except Exception as e:  # noqa: BLE001
                        raise Violation("nearest-options", "nearest(exact=True) raised %s(%s)" % (type(e).__name__, e))
                    if max(dmin) > 1e-6 and not raised:
                        raise Violation("nearest-exact", "exact=True accepted a query %r deg from its nearest station" % max(dmin))
                    if max(dmin) == 0.0 and cq == cd and raised:
                        raise Violation("nearest-exact", "exact=True rejected queries placed exactly on stations %s" % (lams,))
                    ctx.label("exact:" + ("rejects" if raised else "accepts"))
    # ------------------------------------------------------------------ idw
    if "idw" in methods:
        out = None
        try:
            out = run_sel(ds, qlons, qlats_, "idw", tol, max_sites=max_sites, pre=pre)
        except Exception as e:  # noqa: BLE001
            raise Violation("idw-raised", "idw raised %s(%s) for stations %s (%s) query %s (%s)" % (type(e).__name__, e, lams, conv_d, qlons, conv_q))
        got = np.asarray(out.efth.transpose("site", ...).values, dtype=float)
        got = got.reshape(got.shape[0], -1)[:, 0]
        for k, (lq, pq) in enumerate(zip(qlams, qlats_)):
            d = np.array([pdist(lq, pq, ls, ps) for ls, ps in zip(lams, lats)])
            if np.any(np.abs(d - tol) < 1e-9):
                continue
            order = np.argsort(d, kind="stable")
            inr = [i for i in order if d[i] <= tol]
            sd = np.sort(d)
            if max_sites < len(inr) and abs(sd[max_sites - 1] - sd[max_sites]) < 1e-9:
                continue  # tie on the truncation boundary
            inr = inr[:max_sites]
            if inr and d[inr[0]] == 0:
                want = inr[0] + 1.0
            elif len(inr) < 2:
                want = float("nan")
            else:
                w = np.array([1.0 / d[i] for i in inr])
                want = float(np.sum(w * (np.array(inr) + 1.0)) / np.sum(w))
            g = got[k]
            if math.isnan(want) != math.isnan(g) or (not math.isnan(want) and abs(g - want) > 1e-9 * max(1.0, abs(want))):
                raise Violation("idw", "query (%r,%r) [%s]: interpolated value %r, 1/d weighting of stations %s (distances %s) gives %r; dataset lons %s tol %r max_sites %r" % (
                    qlons[k], qlats_[k], conv_q, g, inr, [float(d[i]) for i in inr], want, ds.lon.values.tolist(), tol, max_sites))
        # idw reports the query points themselves
        ol = np.asarray(out.lon.values, dtype=float)
        if not np.allclose(ol, qlons, atol=1e-9):
            raise Violation("idw-lon", "idw reports longitudes %s for query longitudes %s" % (ol.tolist(), qlons))
        if not np.allclose(np.asarray(out.lat.values, dtype=float), qlats_, atol=1e-9):
            raise Violation("idw-lat", "idw reports latitudes %s" % out.lat.values)
        res["idw"] = [None if math.isnan(x) else round(float(x), 9) for x in got]
    # ------------------------------------------------------------------ bbox
    if "bbox" in methods and len(qlons) >= 1:
        lo, hi = min(qlons) - tol, max(qlons) + tol
        rng = (0.0, 360.0) if cq == "360" else (-180.0, 180.0)
        if lo >= rng[0] and hi <= rng[1]:
            slon = [express(x, cq) for x in lams]
            la, lb = min(qlats_) - tol, max(qlats_) + tol
            edge = any(abs(x - lo) < 1e-9 or abs(x - hi) < 1e-9 for x in slon) or any(abs(p - la) < 1e-9 or abs(p - lb) < 1e-9 for p in lats)
            if not edge:
                want = [i for i in range(n) if lo <= slon[i] <= hi and la <= lats[i] <= lb]
                try:
                    out = run_sel(ds, qlons, qlats_, "bbox", tol, pre=pre)
                    got = [int(round(g)) for g in stations_of(out)]
                except ValueError:
                    out, got = None, []
                except Exception as e:  # noqa: BLE001
                    raise Violation("bbox-raised", "bbox raised %s(%s)" % (type(e).__name__, e))
                if got != want:
                    raise Violation("bbox", "box lon [%r,%r] lat [%r,%r] in the %s convention: got stations %s, inside are %s; dataset lons %s (%s convention)" % (
                        lo, hi, la, lb, cq, got, want, ds.lon.values.tolist(), cd))
                if out is not None:
                    _check_lon_convention(out, [lams[i] for i in got], cq, cd, "bbox")
                res["bbox"] = got
            else:
                ctx.label("bbox-edge(skipped)")
        else:
            ctx.label("bbox-leaves-convention-range(skipped)")
    return res


def _check_lon_convention(out, lam_sel, cq, cd, what):
    ol = np.asarray(out.lon.values, dtype=float)
    # reported in the convention of the query (when the two conventions are told apart)
    want = [express(x, cq if cq != cd else cd) for x in lam_sel]
    if not np.allclose(ol, want, atol=1e-9):
        raise Violation("lon-convention", "%s reports longitudes %s, stations are at %s in the %s convention of the query (dataset convention %s)" % (what, ol.tolist(), want, cq, cd))


@st.composite
def lon_near(draw):
    kind = draw(st.sampled_from(["greenwich", "dateline", "any", "any"]))
    if kind == "greenwich":
        off = draw(st.floats(0.05, 8.0))
        return (off if draw(st.booleans()) else 360.0 - off)
    if kind == "dateline":
        if draw(st.integers(0, 3)) == 0:
            return 180.0  # exactly on the date line: a member of both conventions (written 180, never -180)
        off = draw(st.floats(0.05, 8.0))
        return 180.0 + (off if draw(st.booleans()) else -off)
    x = draw(st.floats(0.05, 359.95))
    return x if abs(x - 180.0) > 0.01 else 179.5


@st.composite
def sel_case(draw):
    n = draw(st.integers(1, 6))
    lams = [round(draw(lon_near()), 3) for _ in range(n)]
    lats = [round(draw(st.floats(-9.0, 9.0)), 3) for _ in range(n)]
    # distinct stations
    seen, L, P = set(), [], []
    for a, b in zip(lams, lats):
        if (a, b) not in seen:
            seen.add((a, b))
            L.append(a)
            P.append(b)
    nq = draw(st.integers(1, 4))
    ql, qp = [], []
    for _ in range(nq):
        mode = draw(st.sampled_from(["near-station", "on-station", "free"]))
        if mode == "free":
            ql.append(round(draw(lon_near()), 3))
            qp.append(round(draw(st.floats(-9.0, 9.0)), 3))
        else:
            i = draw(st.integers(0, len(L) - 1))
            dx = 0.0 if mode == "on-station" else round(draw(st.floats(-3.0, 3.0)), 3)
            dy = 0.0 if mode == "on-station" else round(draw(st.floats(-3.0, 3.0)), 3)
            lam = (L[i] + dx) % 360.0
            if lam == 0.0:
                lam += 0.125
            ql.append(round(lam, 3))
            qp.append(round(P[i] + dy, 3))
    if draw(st.integers(0, 4)) == 0:
        ql.append(ql[0])
        qp.append(qp[0])
    return dict(lams=L, lats=P, qlams=ql, qlats=qp, conv_d=draw(st.sampled_from(["360", "180"])), conv_q=draw(st.sampled_from(["360", "180"])),
                tol=draw(st.sampled_from([0.0, 0.5, 2.0, 4.0, 10.0])), max_sites=draw(st.integers(1, 6)), pre=draw(st.booleans()), time=draw(st.integers(0, 4)) == 0)


def check_sel(case, ctx):
    a = check_one(case["lams"], case["lats"], case["conv_d"], case["qlams"], case["qlats"], case["conv_q"], case["tol"], case["max_sites"], case["pre"], ctx, with_time=case["time"])
    # metamorphic: the other convention for the dataset (all three) and for the query (nearest, idw)
    other_d = "180" if case["conv_d"] == "360" else "360"
    other_q = "180" if case["conv_q"] == "360" else "360"
    nt = ctx.nontrivial
    b = check_one(case["lams"], case["lats"], other_d, case["qlams"], case["qlats"], case["conv_q"], case["tol"], case["max_sites"], case["pre"], ctx, with_time=case["time"])
    c = check_one(case["lams"], case["lats"], case["conv_d"], case["qlams"], case["qlats"], other_q, case["tol"], case["max_sites"], case["pre"], ctx, with_time=case["time"])
    ctx.nontrivial = nt or ctx.nontrivial
    ctx.evals += 2
    for m in ("nearest", "idw", "bbox"):
        if m in a and m in b and a[m] != b[m]:
            raise Violation("convention-dataset", "%s selects %s with the dataset in %s but %s in %s" % (m, a[m], case["conv_d"], b[m], other_d))
    for m in ("nearest", "idw"):
        if m in a and m in c and a[m] != c[m]:
            raise Violation("convention-query", "%s selects %s with the query in %s but %s in %s" % (m, a[m], case["conv_q"], c[m], other_q))
    ctx.label("conv=%s/%s" % (case["conv_d"], case["conv_q"]), "tol=%r" % case["tol"], "pre=%s" % case["pre"], "nsta=%d" % len(case["lams"]))
    ctx.show(dict(station_lons=case["lams"], station_lats=case["lats"], conv_dataset=case["conv_d"], query=list(zip(case["qlams"], case["qlats"])), conv_query=case["conv_q"], tol=case["tol"], max_sites=case["max_sites"], selected=a))


def lattice_items(shard, nshards, tier):
    k = 0
    for r in (1, 2, 3):
        for combo in itertools.combinations(range(len(LATTICE)), r):
            k += 1
            if k % nshards != shard:
                continue
            yield dict(stations=list(combo))


def check_lattice(case, ctx):
    lams = [LATTICE[i] for i in case["stations"]]
    lats = [0.0 if i % 2 == 0 else 0.5 for i in case["stations"]]
    nt = 0
    for q in QUERIES:
        for cd in ("360", "180"):
            for cq in ("360", "180"):
                for tol in (0.25, 1.0, 1.25, 400.0):
                    ctx.nontrivial = False
                    check_one(lams, lats, cd, [q[0]], [q[1]], cq, tol, 4, False, ctx)
                    nt += bool(ctx.nontrivial)
                    ctx.evals += 1
    ctx.evals -= 1
    ctx.nontrivial = nt > 0
    ctx.extra_nt = max(0, nt - 1)
    ctx.show(dict(station_lons=lams, queries=QUERIES, conventions="both x both", tolerances=[0.25, 1.0, 1.25, 400.0]))


def facets():
    e = Enumeration("lattice", lattice_items, check_lattice, bounds="all layouts of <= 3 stations on a 12-point longitude lattice x 6 queries x conventions x 4 tolerances (two of them equal to a station-query distance)")
    e.shards = {"quick": 6, "thorough": 16}
    return [Facet("select", sel_case(), check_sel, quick=600, thorough=40000, qshards=6), e]


def extra_evidence(merged, tier):
    ok = merged.get("lattice", {}).get("exhaustive")
    return dict(exhaustive_subspaces=["all layouts of 1-3 stations on the 12-point longitude lattice %s x 6 queries x both conventions for dataset and query x tolerances {0.25,1,1.25,400}" % LATTICE] if ok else [])
