"""C04 - one connected basin per regional maximum on the circular grid; shift equivariance."""
import numpy as np
from hypothesis import strategies as st

from .. import core, gen, native
from ..core import Custom, Facet, Violation
from ..ref import watershed as W

PROP = "C04"
RULE = (
    "Cases are (grid shape nk x nth, float32 spectrum, ihmax). Native facets enumerate every content over a small "
    "alphabet for every shape up to a cell bound (distinct by construction) or draw pseudo-random contents (distinct "
    "by FNV hash), each checked by the oracle compiled into the ASan/UBSan driver, with every circular shift of the "
    "direction axis. The hypothesis facet draws shapes up to 32x48 and spectrum kinds (smooth, noisy, plateau, sparse, "
    "wide range), runs the Python extension built from the tree, checks the map with the independent Python reference "
    "and cross-checks it against the native driver. Non-trivial = at least two regional maxima, or a plateau-shaped "
    "maximum, or a basin that straddles the 0/360 seam; distinct by canonical hash of the case."
)
ASSUMPTIONS = [
    "constant spectra (max-min < 1e-9) are outside C04 by its own wording; they are only checked to give a uniform map (a single basin)",
    "the native driver links the tree's specpart.c standalone (same source, not the same binary as the extension); the hypothesis facet ties the two together by comparing label maps",
    "regional maxima are taken on the spectrum discretised with the documented formula, recomputed independently in float64 from the float32 input",
]

IHS = [1, 2, 3, 4, 5, 7, 10, 100, 1000]


def _ext_partition(a32, ihmax):
    from wavespectra.partition import specpart

    return np.asarray(specpart.partition(np.ascontiguousarray(a32, dtype=np.float32), int(ihmax)))


def check_array(a32, ihmax, ctx, shifts="all", use_native=True):
    nk, nth = a32.shape
    with ctx.lib("specpart.partition"):
        lab = _ext_partition(a32, ihmax)
    why, nreg = W.check_map(a32, ihmax, lab)
    if why:
        raise Violation(why, "map=%s" % lab.tolist())
    lev = W.levels(a32, ihmax)
    if lev is None:
        ctx.label("constant")
        return lab, 0
    comp, isreg = W.regional_maxima(lev)
    plateau = any((comp == c).sum() > 1 for c in np.nonzero(isreg)[0])
    seam = nth > 2 and bool(np.any(lab[:, 0] == lab[:, -1]))
    ctx.label("maxima=%s" % (nreg if nreg < 4 else "4+"))
    if plateau:
        ctx.label("plateau-maximum")
    if seam:
        ctx.label("basin-on-seam")
    ctx.nt(nreg >= 2 or plateau or (seam and nreg >= 1 and nth > 2 and nreg >= 2))
    if shifts == "all":
        ss = range(1, nth)
    elif shifts:
        ss = [s % nth for s in shifts if s % nth]
    else:
        ss = []
    for s in ss:
        with ctx.lib("specpart.partition(shifted)"):
            lab2 = _ext_partition(np.roll(a32, s, axis=1), ihmax)
        ctx.evals += 1
        if not W.same_partition(np.roll(lab, s, axis=1), lab2):
            raise Violation("shift-changes-partition", "shift=%d map=%s shifted=%s" % (s, lab.tolist(), lab2.tolist()))
    if use_native:
        verdict, nlab, err = native.pipe().ask(a32, ihmax, shift=1 if a32.size <= 96 else 0)
        if verdict in ("sanitizer", "timeout") or (verdict or "").startswith("native-crash"):
            raise Violation(verdict, err[-800:])
        if verdict:
            raise Violation("native-oracle:" + verdict, "python oracle passed but native oracle says %s" % verdict)
        if not np.array_equal(nlab, lab):
            raise Violation("extension-differs-from-standalone", "ext=%s standalone=%s" % (lab.tolist(), nlab.tolist()))
    return lab, nreg


def check_values(case, ctx):
    a = np.array(case["values"], dtype=np.float32).reshape(case["nk"], case["nth"])
    check_array(a, case["ihmax"], ctx, shifts="all")
    ctx.show(dict(shape=[case["nk"], case["nth"]], ihmax=case["ihmax"], values=case["values"][:64]))


@st.composite
def small_case(draw):
    nk = draw(st.integers(1, 6))
    nth = draw(st.integers(1, 8))
    levels = draw(st.integers(2, 6))
    vals = draw(st.lists(st.integers(0, levels - 1), min_size=nk * nth, max_size=nk * nth))
    scale = draw(st.sampled_from([1.0, 0.25, 1e-4, 1e3]))
    return dict(nk=nk, nth=nth, ihmax=draw(st.sampled_from(IHS)), values=[v * scale for v in vals])


@st.composite
def big_case(draw):
    nk = draw(st.integers(1, 32))
    nth = draw(st.integers(1, 48))
    return dict(nk=nk, nth=nth, ihmax=draw(st.sampled_from(IHS + [50, 200])), spec=draw(gen.spectrum(kinds=gen.MULTI_KINDS)), shift=draw(st.integers(0, 47)))


def check_big(case, ctx):
    a = gen.build_spectrum(case["spec"], case["nk"], case["nth"], dtype=np.float32)
    ctx.label("kind=" + case["spec"]["kind"])
    n = a.size
    check_array(a, case["ihmax"], ctx, shifts="all" if n <= 64 else [case["shift"], 1])
    ctx.show(dict(shape=[case["nk"], case["nth"]], ihmax=case["ihmax"], kind=case["spec"]["kind"], amp=case["spec"]["amp"]))


def check_ptm3_all(case, ctx):
    """observe_at: np_ptm3(parts=None) returns one partition per basin."""
    from wavespectra.partition.partition import np_ptm3

    a = gen.build_spectrum(case["spec"], case["nk"], case["nth"], dtype=np.float32)
    freq = np.linspace(0.05, 0.4, case["nk"]) if case["nk"] > 1 else np.array([0.1])
    dirs = np.arange(case["nth"]) * (360.0 / case["nth"])
    if case["nk"] < 2:
        ctx.label("skipped-nk<2(npstats.hs needs two frequencies)")
        return
    lev = W.levels(a, case["ihmax"])
    with ctx.lib("np_ptm3(parts=None)"):
        parts = np_ptm3(a, a, freq, dirs, parts=None, ihmax=case["ihmax"])
    if lev is None:
        ctx.label("constant")
        return
    _, isreg = W.regional_maxima(lev)
    nreg = int(isreg.sum())
    ctx.nt(nreg >= 2)
    if len(parts) != nreg:
        raise Violation("ptm3-count", "np_ptm3(parts=None) returned %d partitions for %d regional maxima" % (len(parts), nreg))
    tot = np.sum(parts, axis=0)
    if not np.array_equal(tot, a):
        raise Violation("ptm3-sum", "partitions do not add up to the spectrum")
    ctx.show(dict(shape=[case["nk"], case["nth"]], ihmax=case["ihmax"], kind=case["spec"]["kind"], partitions=len(parts)))


def _native(name, mode_args):
    def fn(prop, tier, seed, shard, nshards):
        args = mode_args(tier, seed, shard, nshards)
        if args is None:
            return core.Result(name)
        res = native.run_batch(args, name, prop)
        if not res.violation and not res.error:
            res.exhaustive = args[0] == "enum"
        return res

    return fn


def facets():
    ih_q = "1,2,3,4,5,100"
    ih_t = "1,2,3,4,5,7,100"
    return [
        Custom("enum_a2", _native("enum_a2", lambda t, s, sh, n: ["enum", sh, n, 9 if t == "quick" else 16, 2, 16, 0, ih_q if t == "quick" else ih_t]), check=check_values,
               doc="every 0/1 map on every shape with <= 9 (quick) / 16 (thorough) cells"),
        Custom("enum_a3", _native("enum_a3", lambda t, s, sh, n: ["enum", sh, n, 7 if t == "quick" else 12, 3, 12, 0, ih_q if t == "quick" else ih_t]), check=check_values,
               doc="every map over {0,1,2} on every shape with <= 7 / 12 cells"),
        Custom("enum_a4", _native("enum_a4", lambda t, s, sh, n: ["enum", sh, n, 9, 4, 9, 0, ih_t]), tiers=("thorough",), check=check_values,
               doc="every map over {0,1,2,3} on every shape with <= 9 cells"),
        Custom("native_rand", _native("native_rand", lambda t, s, sh, n: ["rand", sh, n, s % 1000003, 20000 if t == "quick" else 2000000, 24, 40, 6, "1,2,3,5,10,100,1000"]), check=check_values,
               doc="pseudo-random maps up to 24x40, shapes interleaved"),
        Custom("libfuzzer", native.fuzz, shards={"quick": 2, "thorough": 16}, check=check_values, doc="libFuzzer campaign, oracle inside the target"),
        Facet("small", small_case(), check_values, quick=400, thorough=20000),
        Facet("big", big_case(), check_big, quick=250, thorough=12000),
        Facet("ptm3_all", big_case(), check_ptm3_all, quick=150, thorough=5000),
    ]


def extra_evidence(merged, tier):
    sub = []
    if tier == "quick":
        sub = ["all {0,1} maps, shapes with <= 9 cells", "all {0,1,2} maps, shapes with <= 7 cells"]
    else:
        sub = ["all {0,1} maps, shapes with <= 16 cells", "all {0,1,2} maps, shapes with <= 12 cells", "all {0,1,2,3} maps, shapes with <= 9 cells"]
    ok = all(merged[k]["exhaustive"] for k in merged if k.startswith("enum_"))
    return dict(exhaustive_subspaces=sub if ok else [], exhaustive_subspaces_note="each with every circular shift of the direction axis and ihmax in {1,2,3,4,5,(7,)100}")
