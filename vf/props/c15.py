"""C15 - constructed parametric spectra have the parameters they were built from."""
import math

import numpy as np
from hypothesis import strategies as st

from .. import gen
from ..core import Facet, Violation
from ..ref import stats as R

PROP = "C15"
RULE = (
    "A case is a parameter set: hs 0.05..15 m, fp inside a generated frequency grid (4..24 bins, log/uniform/irregular, "
    "fmax either side of 0.333 Hz), gamma 1..7, sigma_a/b, alpha, depth 2..5000 m, gw, a full-circle uniform direction "
    "grid with 8..72 bins starting anywhere, mean direction anywhere (half the cases within one bin of 0/360), spread "
    "5..75 deg; parameters given as scalars or as DataArrays over an extra dimension. Oracles: Hs measured by the "
    "independent reference and by the accessor equals the request and the spectrum is non-negative (PM / JONSWAP / TMA / "
    "Gaussian); JONSWAP(gamma=1) = PM; TMA(5 km) = JONSWAP; every spreading function is non-negative and sums to one "
    "times the bin width for every frequency; construct_partition(...).oned() equals the 1D shape; measured dm / dspr "
    "equal the request within the aliasing error of an n-point rule (cases whose bound exceeds 0.05 deg are classed "
    "under-resolved and only checked for normalisation). Non-trivial = mean direction within one bin of the seam or "
    "parameters given as DataArrays; distinct by canonical hash."
)
ASSUMPTIONS = [
    "Hs is the accessor's Hm0 (with the 0.333 Hz tail), measured independently by vf/ref/stats.py",
    "the aliasing bound is computed from an independent evaluation of cos^2s((theta-dm)/2) on the same n points against its exact moments (r1 = s/(s+1))",
]


@st.composite
def shape_case(draw):
    fg = draw(gen.freq_grid(4, 24))
    f = fg["f"]
    arr = draw(st.booleans())
    n = draw(st.integers(2, 3)) if arr else 1

    def vals(lo, hi):
        return [round(draw(st.floats(lo, hi)), 5) for _ in range(n)]

    i0 = [draw(st.integers(0, len(f) - 1)) for _ in range(n)]
    fp = [round(float(f[i]) * draw(st.sampled_from([1.0, 1.0, 0.97, 1.04])), 6) for i in i0]
    return dict(fg=fg, arr=arr, hs=vals(0.05, 15.0), fp=fp, gamma=vals(1.0, 7.0), alpha=vals(0.001, 0.05), sigma_a=vals(0.04, 0.1), sigma_b=vals(0.06, 0.15),
                dep=[draw(st.sampled_from([2.0, 8.0, 30.0, 200.0, 5000.0])) for _ in range(n)], gw=vals(0.005, 0.08), shape=draw(st.sampled_from(["pm", "jonswap", "tma", "gaussian"])))


def _param(case, key):
    import xarray as xr

    v = case[key]
    if not case["arr"]:
        return float(v[0])
    return xr.DataArray(np.array(v, dtype=float), coords={"site": np.arange(len(v))}, dims=("site",))


def check_shape(case, ctx):
    from wavespectra.construct import frequency as F

    f = np.array(case["fg"]["f"])
    kw = dict(freq=f, fp=_param(case, "fp"), hs=_param(case, "hs"))
    shape = case["shape"]
    with ctx.lib("construct.%s" % shape):
        if shape == "pm":
            e = F.pierson_moskowitz(alpha=_param(case, "alpha"), **kw)
        elif shape == "jonswap":
            e = F.jonswap(alpha=_param(case, "alpha"), gamma=_param(case, "gamma"), sigma_a=_param(case, "sigma_a"), sigma_b=_param(case, "sigma_b"), **kw)
        elif shape == "tma":
            e = F.tma(dep=_param(case, "dep"), alpha=_param(case, "alpha"), gamma=_param(case, "gamma"), sigma_a=_param(case, "sigma_a"), sigma_b=_param(case, "sigma_b"), **kw)
        else:
            e = F.gaussian(gw=_param(case, "gw"), **kw)
        hs_acc = e.spec.hs()
    ev = np.asarray(e.transpose(..., "freq").values, dtype=float).reshape(-1, len(f))
    ha = np.asarray(hs_acc.values, dtype=float).reshape(-1)
    for k in range(ev.shape[0]):
        want = case["hs"][k]
        row = ev[k]
        if np.any(np.isnan(row)):
            # a shape with no energy on the grid cannot be scaled: only possible when everything underflows
            raise Violation("nan", "%s(hs=%r, fp=%r) contains NaN on grid %s..%s" % (shape, want, case["fp"][k], f[0], f[-1]))
        if row.min() < 0:
            raise Violation("negative", "%s has negative density %r" % (shape, row.min()))
        h = R.Spec(row, f).hs()
        if abs(h - want) > 1e-9 * want or abs(ha[k] - want) > 1e-9 * want:
            raise Violation("hs", "%s(hs=%r, fp=%r, ...): reference measures Hs=%r, accessor %r" % (shape, want, case["fp"][k], h, ha[k]))
    # identities
    if shape == "jonswap":
        with ctx.lib("jonswap(gamma=1) / pm"):
            a = F.jonswap(freq=f, fp=_param(case, "fp"), hs=_param(case, "hs"), gamma=1.0, alpha=_param(case, "alpha"))
            b = F.pierson_moskowitz(freq=f, fp=_param(case, "fp"), hs=_param(case, "hs"), alpha=_param(case, "alpha"))
        if not np.allclose(a.values, b.transpose(*a.dims).values, rtol=1e-12, atol=1e-290):
            raise Violation("jonswap-gamma1", "JONSWAP with gamma=1 differs from Pierson-Moskowitz")
        a0 = F.jonswap(freq=f, fp=_param(case, "fp"), gamma=1.0, alpha=_param(case, "alpha"))
        b0 = F.pierson_moskowitz(freq=f, fp=_param(case, "fp"), alpha=_param(case, "alpha"))
        if not np.allclose(a0.values, b0.transpose(*a0.dims).values, rtol=1e-12, atol=1e-290):
            raise Violation("jonswap-gamma1", "unscaled JONSWAP with gamma=1 differs from Pierson-Moskowitz")
    if shape == "tma":
        with ctx.lib("tma(deep) / jonswap"):
            a = F.tma(freq=f, fp=_param(case, "fp"), dep=5000.0, hs=_param(case, "hs"), gamma=_param(case, "gamma"), alpha=_param(case, "alpha"))
            b = F.jonswap(freq=f, fp=_param(case, "fp"), hs=_param(case, "hs"), gamma=_param(case, "gamma"), alpha=_param(case, "alpha"))
        # how far from "deep" the lowest frequency is: exact depth factor phi(kh) from the Newton wavenumber
        dev = 0.0
        for fv in f:
            kh = R.newton_k(float(fv), 5000.0) * 5000.0
            phi = math.tanh(kh) ** 2 / (1 + 2 * kh / math.sinh(2 * kh)) if kh < 300 else 1.0
            dev = max(dev, abs(1.0 - phi))
        if dev < 1e-3 and not np.allclose(a.values, b.transpose(*a.dims).values, rtol=3 * dev + 1e-9, atol=1e-290):
            raise Violation("tma-deep", "TMA in 5 km of water differs from JONSWAP by more than the depth factor's distance from one (%g)" % dev)
    ctx.nt(case["arr"])
    ctx.label("shape=" + shape, "params=%s" % ("DataArray" if case["arr"] else "scalar"), "tail=" + case["fg"]["tail"])
    ctx.show(dict(shape=shape, grid=[f[0], f[-1], len(f)], hs=case["hs"], fp=case["fp"], gamma=case["gamma"], arrays=case["arr"]))


@st.composite
def spread_case(draw):
    n = draw(st.sampled_from([8, 10, 12, 16, 24, 36, 45, 72]))
    dd = 360.0 / n
    d0 = draw(st.sampled_from([0.0, 0.5 * dd, 0.25, 5.0 % dd, dd * 0.99]))
    if d0 >= dd:
        d0 = 0.0
    dirs = [d0 + i * dd for i in range(n)]
    arr = draw(st.booleans())
    m = draw(st.integers(2, 3)) if arr else 1
    dm = []
    for _ in range(m):
        if draw(st.booleans()):
            dm.append(round((draw(st.floats(-1.0, 1.0)) * dd) % 360.0, 4))
        else:
            dm.append(round(draw(st.floats(0, 359.99)), 4))
    fg = draw(gen.freq_grid(4, 12))
    return dict(dirs=dirs, n=n, arr=arr, dm=dm, dspr=[round(draw(st.floats(5.0, 75.0)), 3) for _ in range(m)], fg=fg, func=draw(st.sampled_from(["cartwright", "cartwright", "asymmetric", "cartwright_under90"])),
                dpm=[round(draw(st.floats(1.0, 359.0)), 3) for _ in range(m)], dpspr=[round(draw(st.floats(5.0, 60.0)), 3) for _ in range(m)], hs=[round(draw(st.floats(0.2, 8.0)), 3) for _ in range(m)],
                roll=draw(st.integers(0, n - 1)), store=draw(st.sampled_from(["rolled", "rolled", "interleaved", "shuffled"])), perm=draw(st.permutations(list(range(n)))))


def ref_moments(dirs, dm, dspr, under_90=False):
    """Independent n-point evaluation of cos^2s((theta-dm)/2) (optionally cut beyond 90 deg): discrete mean direction and spread."""
    s = 2.0 / math.radians(dspr) ** 2 - 1.0
    g = []
    for t in dirs:
        dth = abs(t - dm) % 360.0
        dth = min(dth, 360.0 - dth)
        g.append(0.0 if under_90 and dth > 90.0 else math.cos(0.5 * math.radians(dth)) ** (2 * s))
    tot = math.fsum(g)
    sn = math.fsum(gi * math.sin(math.radians(270.0 - t)) for gi, t in zip(g, dirs))
    cs = math.fsum(gi * math.cos(math.radians(270.0 - t)) for gi, t in zip(g, dirs))
    dmean = (270.0 - math.degrees(math.atan2(sn, cs))) % 360.0
    r1 = math.hypot(sn, cs) / tot
    return dmean, math.degrees(math.sqrt(max(0.0, 2.0 * (1.0 - r1))))


def check_spread(case, ctx):
    import xarray as xr
    from wavespectra.construct import construct_partition, direction as D, frequency as F

    dirs = case["dirs"][case["roll"]:] + case["dirs"][: case["roll"]] if case["func"] != "asymmetric" else case["dirs"]
    if case["func"] != "asymmetric" and case.get("store") == "interleaved":
        dirs = case["dirs"][0::2] + case["dirs"][1::2]  # two sector sets concatenated without sorting
    elif case["func"] != "asymmetric" and case.get("store") == "shuffled":
        dirs = [case["dirs"][i] for i in case["perm"]]
    ctx.label("stored=" + (case.get("store", "rolled") if case["func"] != "asymmetric" else "asc"))
    n = case["n"]
    dd = 360.0 / n
    f = np.array(case["fg"]["f"])
    func = case["func"]
    with ctx.lib("construct.direction.%s" % func):
        if func == "asymmetric":
            g = D.asymmetric(dir=dirs, freq=f, dm=_param(case, "dm"), dpm=_param(case, "dpm"), dspr=_param(case, "dspr"), dpspr=_param(case, "dpspr"), fm=float(f[len(f) // 2]), fp=float(f[len(f) // 3]))
        else:
            g = D.cartwright(dir=dirs, dm=_param(case, "dm"), dspr=_param(case, "dspr"), under_90=(func == "cartwright_under90"))
    gv = np.asarray(g.transpose(..., "dir").values, dtype=float)
    if np.any(np.isnan(gv)):
        raise Violation("nan", "%s contains NaN (n=%d)" % (func, n))
    if gv.min() < 0:
        raise Violation("negative", "%s negative %r" % (func, gv.min()))
    tot = gv.sum(axis=-1) * dd
    if not np.allclose(tot, 1.0, rtol=1e-9, atol=0):
        raise Violation("normalisation", "%s sums to %s over the circle (n=%d, dm=%s, dspr=%s)" % (func, np.unique(np.round(tot, 9))[:4], n, case["dm"], case["dspr"]))
    seam = any(min(x % 360.0, 360.0 - x % 360.0) <= dd for x in case["dm"])
    u90 = func == "cartwright_under90"
    if u90 and any(abs(min(abs(t - x) % 360.0, 360.0 - abs(t - x) % 360.0) - 90.0) < 1e-6 for t in dirs for x in case["dm"]):
        ctx.label("bin-exactly-at-90deg(normalisation only)")
    elif func in ("cartwright", "cartwright_under90"):
        # 2D spectrum = shape x spreading: integrates back to the shape; measured dm / dspr equal the request
        # (with the cut beyond 90 deg the function stays symmetric about dm, so the mean direction still does; the spread is narrower)
        with ctx.lib("construct_partition"):
            e2 = construct_partition("jonswap", "cartwright", freq_kwargs=dict(freq=f, fp=float(f[len(f) // 3]), hs=_param(case, "hs")), dir_kwargs=dict(dir=dirs, dm=_param(case, "dm"), dspr=_param(case, "dspr"), **(dict(under_90=True) if u90 else {})))
            e1 = F.jonswap(freq=f, fp=float(f[len(f) // 3]), hs=_param(case, "hs"))
            one = e2.spec.oned()
            mdm, mds, mhs = e2.spec.dm(), e2.spec.dspr(), e2.spec.hs()
        # absolute floor: densities in the subnormal range (1e-318 at the foot of a JONSWAP) carry only a few significant bits
        if not np.allclose(one.transpose(*e1.dims).values, e1.values, rtol=1e-9, atol=1e-290):
            raise Violation("oned", "construct_partition(...).spec.oned() differs from the 1D shape")
        mdm, mds, mhs = np.asarray(mdm.values, dtype=float).reshape(-1), np.asarray(mds.values, dtype=float).reshape(-1), np.asarray(mhs.values, dtype=float).reshape(-1)
        for k in range(len(case["dm"])):
            if abs(mhs[k] - case["hs"][k]) > 1e-9 * case["hs"][k]:
                raise Violation("hs-2d", "2D spectrum Hs %r, requested %r" % (mhs[k], case["hs"][k]))
            rdm, rds = ref_moments(dirs, case["dm"][k], case["dspr"][k], under_90=u90)
            if u90:
                rds = case["dspr"][k]
            bdm = min(abs(rdm - case["dm"][k]) % 360.0, 360.0 - abs(rdm - case["dm"][k]) % 360.0)
            bds = abs(rds - case["dspr"][k])
            if max(bdm, bds) > 0.05:
                ctx.label("under-resolved(normalisation only)")
                continue
            ddm = abs(mdm[k] - case["dm"][k]) % 360.0
            ddm = min(ddm, 360.0 - ddm)
            if ddm > bdm + 1e-6:
                raise Violation("dm", "requested mean direction %r, measured %r (n=%d, spread %r; n-point rule error bound %r)" % (case["dm"][k], mdm[k], n, case["dspr"][k], bdm))
            if not u90 and abs(mds[k] - case["dspr"][k]) > bds + 1e-6:
                raise Violation("dspr", "requested spread %r, measured %r (n=%d; bound %r)" % (case["dspr"][k], mds[k], n, bds))
    ctx.nt(seam or case["arr"])
    ctx.label("func=" + func, "n=%d" % n, "dm-near-seam" if seam else "dm-away", "params=%s" % ("DataArray" if case["arr"] else "scalar"))
    ctx.show(dict(func=func, n=n, d0=case["dirs"][0], dm=case["dm"], dspr=case["dspr"], arrays=case["arr"]))


def facets():
    return [
        Facet("shapes", shape_case(), check_shape, quick=500, thorough=30000, qshards=4),
        Facet("spreading", spread_case(), check_spread, quick=500, thorough=30000, qshards=4),
    ]
