"""Catalogue of public operations shared by C05 (layout), C06 (independence), C07 (dask), C17, C18, C20.

An operation is described by a JSON-able spec {"op": name, **params}; `apply(spec, da, aux)` calls the
library. `aux` carries wind/depth fields as DataArrays over the non-spectral dims.
Parameters are expressed relative to the grid (fractions / indices) and converted to labels here, so the
same spec means the same labelled request whatever the storage order.
"""
import math

import numpy as np
from hypothesis import strategies as st

# name -> (needs_dir, min_nf, family)
#   family: "stat" | "peak" (depends on the discrete peak choice) | "transform" | "split" | "watershed" | "fit"
CATALOGUE = {
    "hs": (False, 1, "stat"), "hs_notail": (False, 1, "stat"), "hrms": (False, 1, "stat"),
    "tm01": (False, 1, "stat"), "tm02": (False, 1, "stat"), "momf1": (False, 1, "stat"), "momf3": (False, 1, "stat"),
    "swe": (False, 1, "width"), "sw": (False, 1, "width"), "gw": (False, 1, "width"), "goda": (False, 1, "stat"),
    "mss": (False, 1, "stat"), "mss_depth": (False, 1, "stat"), "oned": (False, 1, "stat"), "to_energy": (False, 1, "stat"),
    "celerity": (False, 1, "stat"), "wavelen": (False, 1, "stat"),
    "mss_dptfield": (False, 1, "stat"), "uss_dptfield": (True, 1, "stat"),  # depth given as a field over the non-spectral dimensions
    "hmax": (False, 1, "timestat"),  # uses the mean step of the whole time axis: per-spectrum, but not independent of the time coordinate
    "dm": (True, 1, "dir"), "dspr": (True, 1, "width"), "momd1": (True, 1, "stat"), "fdspr": (True, 1, "widthf"), "crsd": (True, 1, "stat"),
    "uss": (True, 1, "stat"), "uss_x": (True, 1, "stat"), "uss_y_depth": (True, 1, "stat"),
    "dp": (True, 1, "dp"),
    "tp": (False, 3, "peak"), "tp_discrete": (False, 3, "peak"), "fp": (False, 3, "peak"), "alpha": (False, 3, "peak"), "gamma": (False, 3, "peak"),
    "dpm": (True, 3, "peakdir"), "dpspr": (True, 3, "peakwidth"),
    "stats_list": (True, 3, "statsds"), "stats_band": (True, 3, "statsds"),
    "smooth33": (True, 1, "transform"), "smooth_f": (True, 1, "transform"), "smooth_d5": (True, 1, "transform"),
    "interp_freq": (True, 2, "transform"), "interp_dir": (True, 2, "transform"), "interp_both": (True, 2, "transform"), "interp_nom0": (True, 2, "transform"), "interp_noop": (True, 1, "transform"),
    "rotate": (True, 1, "transform"), "rotate_bin": (True, 1, "transform"),
    "split_f": (True, 3, "transform"), "split_fd": (True, 3, "transform"), "scale_by_hs": (True, 3, "transform"),
    "ptm4": (True, 2, "split"), "ptm5": (True, 3, "split"), "ptm5_node": (True, 3, "split"), "bbox": (True, 3, "split"),
    "ptm1": (True, 2, "watershed"), "ptm2": (True, 2, "watershed"), "ptm3": (True, 2, "watershed"), "ptm1_smooth": (True, 2, "watershed"),
}

STAT_NAMES = [k for k, v in CATALOGUE.items() if v[2] in ("stat", "timestat", "width", "dir", "dp", "peak", "peakdir", "peakwidth", "widthf", "statsds")]
TRANSFORM_NAMES = [k for k, v in CATALOGUE.items() if v[2] == "transform"]
SPLIT_NAMES = [k for k, v in CATALOGUE.items() if v[2] == "split"]
WATERSHED_NAMES = [k for k, v in CATALOGUE.items() if v[2] == "watershed"]


@st.composite
def op_spec(draw, names=None, has_dir=True, nf=3):
    names = names or list(CATALOGUE)
    ok = [n for n in names if (has_dir or not CATALOGUE[n][0]) and nf >= CATALOGUE[n][1]]
    name = draw(st.sampled_from(ok))
    return dict(
        op=name, a=draw(st.integers(5, 95)) / 100.0, b=draw(st.integers(5, 95)) / 100.0, k=draw(st.integers(1, 5)),
        ang=draw(st.sampled_from([10.0, -25.5, 123.0, 400.0])), depth=draw(st.sampled_from([3.0, 25.0, 300.0])),
        ihmax=draw(st.sampled_from([5, 50, 100])), agefac=draw(st.sampled_from([1.0, 1.7])),
    )


def _fsorted(da):
    return np.sort(np.asarray(da.freq.values, dtype=float))


def _dsorted(da):
    return np.sort(np.asarray(da.dir.values, dtype=float))


def fcut_between(da, frac):
    """A frequency strictly between two grid nodes (label-based, independent of storage order)."""
    f = _fsorted(da)
    i = min(len(f) - 2, max(0, int(frac * (len(f) - 1))))
    return float(f[i] + 0.37 * (f[i + 1] - f[i]))


def fnode(da, frac):
    f = _fsorted(da)
    return float(f[min(len(f) - 2, max(1, int(frac * (len(f) - 1))))])


def apply(spec, da, aux=None):
    """Call the operation `spec` on DataArray `da` (any layout / backing). Returns the library's result."""
    op = spec["op"]
    sp = da.spec
    a, b = spec.get("a", 0.5), spec.get("b", 0.5)
    if op == "hs":
        return sp.hs()
    if op == "hs_notail":
        return sp.hs(tail=False)
    if op in ("hmax", "hrms", "tm01", "tm02", "swe", "sw", "gw", "goda", "oned", "to_energy", "celerity", "wavelen", "dm", "dspr", "dp", "fp", "alpha", "gamma", "dpm", "dpspr", "fdspr", "crsd", "uss", "uss_x", "mss"):
        return getattr(sp, op)()
    if op == "tp":
        return sp.tp()
    if op == "tp_discrete":
        return sp.tp(smooth=False)
    if op == "momf1":
        return sp.momf(1)
    if op == "momf3":
        return sp.momf(3)
    if op == "momd1":
        return sp.momd(1)
    if op == "mss_depth":
        return sp.mss(depth=spec["depth"])
    if op in ("mss_dptfield", "uss_dptfield"):
        dpt = (aux or {}).get("dpt")
        dpt = spec["depth"] if dpt is None else dpt
        return sp.mss(depth=dpt) if op == "mss_dptfield" else sp.uss(depth=dpt)
    if op == "uss_y_depth":
        return sp.uss_y(depth=spec["depth"])
    if op == "stats_list":
        return sp.stats(["hs", "tm02", "dm", "dspr", "tp", "dpm"])
    if op == "stats_band":
        f1, f2 = sorted([fcut_between(da, a * 0.5), fcut_between(da, 0.5 + b * 0.5)])
        if f2 <= f1:
            f2 = float(_fsorted(da)[-1])
        return sp.stats({"hs": {}, "tm01": {}, "dm": {}}, fmin=f1, fmax=f2, names=["hs_band", "tm01_band", "dm_band"])
    if op == "smooth33":
        return sp.smooth(3, 3)
    if op == "smooth_f":
        return sp.smooth(3, 1)
    if op == "smooth_d5":
        return sp.smooth(1, 5 if da.sizes["dir"] >= 5 else 3)
    if op == "interp_noop":
        return sp.interp(maintain_m0=False)  # no target given, no rescaling: the spectra come back as they are
    if op in ("interp_freq", "interp_both", "interp_nom0"):
        f = _fsorted(da)
        newf = np.concatenate([[f[0] * 0.8], 0.5 * (f[:-1] + f[1:]), [f[-1] * 1.1]]) if op != "interp_nom0" else 0.5 * (f[:-1] + f[1:])
        if op == "interp_freq":
            return sp.interp(freq=newf)
        d = _dsorted(da)
        dd = 360.0 / len(d)
        newd = (d + a * dd) % 360.0
        return sp.interp(freq=newf, dir=np.sort(newd), maintain_m0=(op != "interp_nom0"))
    if op == "interp_dir":
        d = _dsorted(da)
        n2 = max(2, len(d) // 2 if spec["k"] % 2 else len(d) * 2)
        return sp.interp(dir=np.arange(n2) * (360.0 / n2))
    if op == "rotate":
        return sp.rotate(spec["ang"])
    if op == "rotate_bin":
        return sp.rotate(spec["k"] * 360.0 / da.sizes["dir"])
    if op == "split_f":
        f1, f2 = fcut_between(da, a * 0.4), fnode(da, 0.6 + b * 0.4)
        if f2 <= f1:
            f2 = float(_fsorted(da)[-1])
        return sp.split(fmin=f1, fmax=f2)
    if op == "split_fd":
        d = _dsorted(da)
        d1 = float(d[int(a * (len(d) - 1)) // 2]) + 0.25
        d2 = float(d[-1]) - 0.25 if len(d) > 2 else float(d[-1]) + 1
        if d2 <= d1:
            d1, d2 = float(d[0]) - 0.5 if d[0] > 0.5 else 0.25, float(d[-1]) + 0.5
        return sp.split(fmin=fcut_between(da, 0.1), dmin=d1, dmax=d2)
    if op == "scale_by_hs":
        return sp.scale_by_hs("%r*hs" % round(0.5 + a, 3), tp_min=1.0 / fnode(da, 0.5))
    w = aux
    if op == "ptm4":
        return sp.partition.ptm4(w["wspd"], w["wdir"], w["dpt"], agefac=spec["agefac"])
    if op == "ptm5":
        return sp.partition.ptm5(fcut=fcut_between(da, a))
    if op == "ptm5_node":
        return sp.partition.ptm5(fcut=fnode(da, a))
    if op == "bbox":
        f = _fsorted(da)
        d = _dsorted(da)
        fm = fcut_between(da, a)
        dmid = float(d[len(d) // 2]) - 0.5 * (360.0 / len(d)) if len(d) > 1 else 180.0
        boxes = [dict(fmin=float(f[0]), fmax=fm, dmin=float(d[0]) if d[0] > 0 else 1e-6, dmax=dmid), dict(fmin=fm + 1e-6, fmax=float(f[-1]), dmin=dmid + 1e-6, dmax=float(d[-1]) + 0.5)]
        return sp.partition.bbox(boxes)
    if op in ("ptm1", "ptm2", "ptm1_smooth"):
        fn = sp.partition.ptm2 if op == "ptm2" else sp.partition.ptm1
        return fn(w["wspd"], w["wdir"], w["dpt"], agefac=spec["agefac"], swells=spec["k"], ihmax=spec["ihmax"], smooth=(op == "ptm1_smooth"))
    if op == "ptm3":
        return sp.partition.ptm3(parts=spec["k"], ihmax=spec["ihmax"])
    raise ValueError(op)


# ------------------------------------------------------------------------------------ comparison

def parts_of(res):
    """Flatten a library result into {name: DataArray}."""
    import xarray as xr

    if isinstance(res, xr.Dataset):
        return {str(k): res[k] for k in res.data_vars}
    if isinstance(res, (tuple, list)):
        return {"item%d" % i: r for i, r in enumerate(res)}
    return {"value": res}


def canon(da, order=None):
    """Sort every dimension by its labels and put dims in a canonical order; returns (dims, coords, values)."""
    import xarray as xr

    da = da.compute() if hasattr(da, "compute") else da
    # rebuild a plain object: library results carry auto-vivifying attribute tables that cannot be deep-copied
    da = xr.DataArray(np.asarray(da.values), coords={d: np.asarray(da[d].values) for d in da.dims if d in da.coords}, dims=da.dims)
    for d in da.dims:
        if d in da.coords and da[d].ndim == 1 and da.sizes[d] > 1:
            da = da.sortby(d)
    dims = sorted(da.dims, key=lambda d: ("zz" + d) if d in ("freq", "dir") else d)
    if order:
        dims = [d for d in order if d in da.dims] + [d for d in dims if d not in order]
    da = da.transpose(*dims)
    coords = {d: np.asarray(da[d].values) for d in dims if d in da.coords}
    return tuple(dims), coords, np.asarray(da.values)


def compare(resA, resB, rtol, family, what, circ=False, atol_rel=None, radicand=None):
    """Compare two results by label. Returns None or a message."""
    A, B = parts_of(resA), parts_of(resB)
    if set(A) != set(B):
        return "%s: result variables differ: %s vs %s" % (what, sorted(A), sorted(B))
    for k in A:
        da, db = canon(A[k]), canon(B[k])
        if da[0] != db[0]:
            return "%s[%s]: dims differ %s vs %s" % (what, k, da[0], db[0])
        for d in da[0]:
            if d in da[1]:
                ca, cb = da[1][d], db[1].get(d)
                if cb is None or ca.shape != cb.shape:
                    return "%s[%s]: coordinate %s differs in size" % (what, k, d)
                if ca.dtype.kind in "fc":
                    if not np.allclose(ca, cb, rtol=1e-9, atol=1e-9):
                        return "%s[%s]: coordinate %s differs: %s vs %s" % (what, k, d, ca[:5], cb[:5])
                elif not np.array_equal(ca, cb):
                    return "%s[%s]: coordinate %s differs" % (what, k, d)
        va, vb = np.asarray(da[2], dtype=float), np.asarray(db[2], dtype=float)
        if va.shape != vb.shape:
            return "%s[%s]: shapes differ %s vs %s" % (what, k, va.shape, vb.shape)
        msg = compare_values(va, vb, rtol, k, circ=circ or k in ("dm", "dp", "dpm", "dm_band"), atol_rel=atol_rel, radicand=radicand)
        if msg:
            return "%s[%s]: %s" % (what, k, msg)
    return None


def compare_values(va, vb, rtol, name="", circ=False, atol_rel=None, radicand=None):
    nan = np.isnan(va) & np.isnan(vb)
    if radicand is not None:
        # widths and spreads are square roots of a difference of nearly equal numbers: the rounding of the evaluation
        # bounds the error of the radicand, not of the root. radicand = absolute tolerance on the squared values.
        sa, sb = np.nan_to_num(va, nan=0.0) ** 2, np.nan_to_num(vb, nan=0.0) ** 2
        tol = radicand + 2 * rtol * np.maximum(sa, sb)
        bad = np.abs(sa - sb) > tol
        bad |= (np.isnan(va) & ~np.isnan(vb) & (sb > tol)) | (np.isnan(vb) & ~np.isnan(va) & (sa > tol))
    elif circ:
        d = np.abs(va - vb) % 360.0
        d = np.minimum(d, 360.0 - d)
        bad = ~((d <= max(rtol * 360.0, 1e-9)) | nan)
    else:
        scale = np.nanmax(np.abs(np.concatenate([va.ravel(), vb.ravel(), [0.0]])))
        atol = (atol_rel if atol_rel is not None else rtol * 1e-3) * scale
        bad = ~((np.abs(va - vb) <= rtol * np.maximum(np.abs(va), np.abs(vb)) + atol) | nan | ((va == vb)))
    if np.any(bad):
        i = tuple(np.argwhere(bad)[0])
        return "values differ at %s: %r vs %r (%d of %d bins)" % (list(i), va[i], vb[i], int(bad.sum()), bad.size)
    return None
