"""Independent reference for integrated and peak wave parameters (C01, C02, C10, ...).

Plain float64 loops over bins, written from the published definitions quoted in the docstrings of
wavespectra.specarray (Hm0 with the 0.333 Hz parametric tail, Tm01, Tm02, Kuik mean direction and
spread, Longuet-Higgins / Cartwright widths, Goda Qp, Bunney gaussian width, Stokes drift, mss).
Nothing here imports wavespectra.
"""
import math

import numpy as np

G = 9.80665  # scipy.constants.g
D2R = math.pi / 180.0
R2D = 180.0 / math.pi


def df_of(f):
    """Bin widths: centred differences, one-sided at the ends, 1.0 for a single frequency."""
    n = len(f)
    if n == 1:
        return np.array([1.0])
    out = np.empty(n)
    out[0] = f[1] - f[0]
    out[-1] = f[-1] - f[-2]
    for i in range(1, n - 1):
        out[i] = (f[i + 1] - f[i - 1]) / 2.0
    return out


def dd_of(dirs):
    """Width of a direction bin of a uniform full-circle grid (the grid's own width)."""
    if dirs is None or len(dirs) <= 1:
        return 1.0
    return 360.0 / len(dirs)


def dd_partial(dirs):
    """Bin width of a uniform (possibly partial) grid: spacing of the sorted labels."""
    if dirs is None or len(dirs) <= 1:
        return 1.0
    s = np.sort(np.asarray(dirs, dtype=float))
    return float(s[1] - s[0])


G_LIB = 9.81  # the value behind the library's constants (0.10194 = 1/9.81, 1.56 ~ 9.81/2pi)


def newton_k(f, h, g=G_LIB):
    """Exact wavenumber from w^2 = g k tanh(k h) by Newton iteration (float64)."""
    G = g
    w = 2.0 * math.pi * f
    if h is None:
        return w * w / G
    k0 = w * w / G
    # Eckart start
    k = k0 / math.sqrt(math.tanh(k0 * h)) if k0 * h > 1e-12 else w / math.sqrt(G * h)
    for _ in range(100):
        t = math.tanh(k * h)
        fk = G * k * t - w * w
        dfk = G * t + G * k * h * (1.0 - t * t)
        step = fk / dfk
        k -= step
        if abs(step) <= 1e-15 * abs(k):
            break
    return k


class Spec:
    """One spectrum E[f, d] (float64 copies of the stored values) with its labels."""

    def __init__(self, E, f, dirs=None, dd=None):
        self.f = np.asarray(f, dtype=np.float64)
        self.dirs = None if dirs is None else np.asarray(dirs, dtype=np.float64)
        E = np.asarray(E, dtype=np.float64)
        if self.dirs is None:
            E = E.reshape(len(self.f), 1)
        self.E = E
        self.df = df_of(self.f)
        self.dd = dd if dd is not None else dd_of(self.dirs)
        nf, nd = E.shape
        self.nf, self.nd = nf, nd
        # direction-integrated spectrum, bin by bin
        # float64 row sums (math.fsum: exactly rounded, independent of summation order)
        w = self.dd if self.dirs is not None else 1.0
        self.S = np.array([math.fsum(E[i, :].tolist()) * w for i in range(nf)])

    # ---- moments
    def momf(self, n):
        acc = 0.0
        for i in range(self.nf):
            acc += self.f[i] ** n * self.S[i] * self.df[i]
        return acc

    def tail(self):
        return 0.25 * self.S[-1] * self.f[-1] if self.f[-1] > 0.333 else 0.0

    def hs(self, tail=True):
        return 4.0 * math.sqrt(self.momf(0) + (self.tail() if tail else 0.0))

    def hrms(self, tail=True):
        return math.sqrt(8.0 * (self.momf(0) + (self.tail() if tail else 0.0)))

    def tm01(self):
        return _div(self.momf(0), self.momf(1))

    def tm02(self):
        m0, m2 = self.momf(0), self.momf(2)
        return math.sqrt(_div(m0, m2)) if m2 > 0 else float("nan")

    def momd1(self):
        """First directional moments per frequency, library convention sin/cos(180 + 90 - theta)."""
        ang = np.array([math.radians(180.0 + 90.0 - t) for t in self.dirs])
        sn, cs = np.sin(ang), np.cos(ang)
        ms = np.array([math.fsum((self.E[i, :] * sn).tolist()) for i in range(self.nf)]) * self.dd
        mc = np.array([math.fsum((self.E[i, :] * cs).tolist()) for i in range(self.nf)]) * self.dd
        mabs = np.array([math.fsum(np.abs(self.E[i, :]).tolist()) for i in range(self.nf)]) * self.dd
        return ms, mc, mabs

    def dm(self, weighted=True):
        """Mean direction; returns (value, conditioning = sum|terms| / |resultant|)."""
        ms, mc, mabs = self.momd1()
        w = self.df if weighted else np.ones(self.nf)
        S = float(np.sum(ms * w))
        C = float(np.sum(mc * w))
        A = float(np.sum(mabs * w))
        r = math.hypot(S, C)
        if r == 0.0:
            return float("nan"), float("inf")
        return (270.0 - R2D * math.atan2(S, C)) % 360.0, A / r

    def dspr_radicand(self):
        """(1 - |m1|/m0, m0): dspr = sqrt(2 * that) * R2D."""
        ms, mc, _ = self.momd1()
        a = float(np.sum(ms * self.df))
        b = float(np.sum(mc * self.df))
        e = self.momf(0)
        if e <= 0:
            return float("nan"), e
        return 1.0 - math.hypot(a, b) / e, e

    def sw_radicand(self):
        m0, m1, m2 = self.momf(0), self.momf(1), self.momf(2)
        if m1 <= 0:
            return float("nan")
        return m0 * m2 / (m1 * m1) - 1.0

    def swe_radicand(self):
        m0, m2, m4 = self.momf(0), self.momf(2), self.momf(4)
        if m0 <= 0 or m4 <= 0:
            return float("nan")
        return 1.0 - m2 * m2 / (m0 * m4)

    def gw_radicand(self):
        """Bunney et al. (2014): sigma^2 = m0/Tz^2 - m0^2/Tm^2 with m0 = (Hs/4)^2 (tail included)."""
        m0h = (self.hs() / 4.0) ** 2
        t1, t2 = self.tm01(), self.tm02()
        if not (t1 > 0 and t2 > 0):
            return float("nan"), float("nan")
        A, B = m0h / t2**2, m0h**2 / t1**2
        return A - B, abs(A) + abs(B)

    def goda(self):
        m0 = self.momf(0)
        acc = 0.0
        for i in range(self.nf):
            acc += self.S[i] ** 2 * self.f[i] * self.df[i]
        return _div(2.0 * acc, m0 * m0)

    def k(self, depth):
        if depth is None:
            return np.array([2.0 * math.pi / (1.56 / fi**2) for fi in self.f])
        return np.array([newton_k(fi, depth) for fi in self.f])

    def uss_components(self, depth=None):
        k = self.k(depth)
        ang = np.array([D2R * (180.0 + 90.0 - t) for t in self.dirs])
        sn, cs = np.sin(ang), np.cos(ang)
        x = y = tot = 0.0
        for i in range(self.nf):
            w = self.dd * 4.0 * math.pi * self.f[i] * k[i] * self.df[i]
            row = self.E[i, :]
            x += w * math.fsum((row * cs).tolist())
            y += w * math.fsum((row * sn).tolist())
            tot += w * math.fsum(row.tolist())
        return x, y, tot

    def mss(self, depth=None):
        k = self.k(depth)
        acc = 0.0
        for i in range(self.nf):
            acc += k[i] ** 2 * self.S[i] * self.df[i]
        return acc

    def to_energy(self):
        return self.E * self.df[:, None] * (self.dd if self.dirs is not None else 1.0)

    # ---- peak
    def peak_index(self):
        """Indices of the largest strict interior local maxima of S (may be several on a tie)."""
        best, idx = None, []
        for i in range(1, self.nf - 1):
            if self.S[i - 1] < self.S[i] and self.S[i] > self.S[i + 1]:
                if best is None or self.S[i] > best:
                    best, idx = self.S[i], [i]
                elif self.S[i] == best:
                    idx.append(i)
        return idx


def _div(a, b):
    return a / b if b != 0 else float("nan")


# npstats twins: documented as trapezoid integration over frequency

def np_hs(E, f, dirs=None, tail=True):
    """Trapezoid Hs used by the partitioning code: 4 sqrt(sum 0.5 (E_i + E_i+1) |f_i+1 - f_i| + tail)."""
    E = np.asarray(E, dtype=np.float64)
    f = np.asarray(f, dtype=np.float64)
    if dirs is not None and len(dirs) > 1:
        dd = dd_of(dirs)
        S = np.array([sum(E[i, j] for j in range(E.shape[1])) * dd for i in range(E.shape[0])])
    else:
        S = E.reshape(len(f))
    tot = 0.0
    for i in range(len(f) - 1):
        tot += 0.5 * abs(f[i + 1] - f[i]) * (S[i] + S[i + 1])
    if tail and f[-1] > 0.333:
        tot += 0.25 * S[-1] * f[-1]
    return 4.0 * math.sqrt(tot)
