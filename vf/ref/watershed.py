"""Independent validity predicates for the watershed map (properties C04, C03, C20).

Shares no code with specpart.c: levels are recomputed from the documented formula, regional
maxima and connectivity by flood fill on the (freq, dir) grid with 8-neighbour adjacency, the
direction axis circular.
"""
import numpy as np


def levels(spec32, ihmax):
    """Discretised levels (0 = highest energy) or None when the routine treats it as constant."""
    z = np.asarray(spec32, dtype=np.float32)
    zmin = float(z.min())
    zmax = float(z.max())
    if zmax - zmin < 1e-9:
        return None
    fact = (ihmax - 1.0) / (zmax - zmin)
    zp = (np.float64(zmax) - z.astype(np.float64)).astype(np.float32).astype(np.float64)
    v = zp * fact
    r = np.floor(v)
    r = r + ((v - r) >= 0.5)  # C round(): half away from zero (v >= 0)
    return np.clip(r, 0, ihmax - 1).astype(np.int64)


def _neighbours(f, d, nf, nd):
    out = []
    for df in (-1, 0, 1):
        ff = f + df
        if ff < 0 or ff >= nf:
            continue
        for dd in (-1, 0, 1):
            if df == 0 and dd == 0:
                continue
            d2 = (d + dd) % nd
            if ff == f and d2 == d:
                continue
            if (ff, d2) not in out:
                out.append((ff, d2))
    return out


def components(key):
    """Connected components of equal `key` (2D int array). Returns (comp array, count)."""
    nf, nd = key.shape
    comp = -np.ones((nf, nd), dtype=np.int64)
    nc = 0
    for f0 in range(nf):
        for d0 in range(nd):
            if comp[f0, d0] >= 0:
                continue
            comp[f0, d0] = nc
            stack = [(f0, d0)]
            while stack:
                f, d = stack.pop()
                for ff, d2 in _neighbours(f, d, nf, nd):
                    if comp[ff, d2] < 0 and key[ff, d2] == key[f, d]:
                        comp[ff, d2] = nc
                        stack.append((ff, d2))
            nc += 1
    return comp, nc


def regional_maxima(lev):
    """Components of equal level with no neighbour of lower level (= higher energy)."""
    nf, nd = lev.shape
    comp, nc = components(lev)
    isreg = np.ones(nc, dtype=bool)
    for f in range(nf):
        for d in range(nd):
            for ff, d2 in _neighbours(f, d, nf, nd):
                if lev[ff, d2] < lev[f, d]:
                    isreg[comp[f, d]] = False
    return comp, isreg


def check_map(spec32, ihmax, lab):
    """Return (reason or None, number of regional maxima)."""
    lab = np.asarray(lab)
    n = lab.size
    if lab.shape != np.shape(spec32):
        return "shape", 0
    if lab.min() < 0 or lab.max() > n:
        return "label-out-of-range", 0
    lev = levels(spec32, ihmax)
    if lev is None:
        return ("constant-not-uniform" if (np.any(lab != lab.flat[0]) or lab.max() > 1) else None), 0
    if lab.min() < 1:
        return "unlabelled-bin", -1
    comp, isreg = regional_maxima(lev)
    nreg = int(isreg.sum())
    maxlab = int(lab.max())
    if set(np.unique(lab)) != set(range(1, maxlab + 1)):
        return "label-gap", nreg
    if maxlab != nreg:
        return "count-mismatch", nreg
    labofreg = {}
    for c in np.nonzero(isreg)[0]:
        ls = set(lab[comp == c].tolist())
        if len(ls) != 1:
            return "maximum-split", nreg
        labofreg[c] = ls.pop()
    if len(set(labofreg.values())) != nreg:
        return "two-maxima-in-one-basin", nreg
    _, nlc = components(lab)
    if nlc != maxlab:
        return "basin-disconnected", nreg
    return None, nreg


def same_partition(a, b):
    a = np.asarray(a).ravel()
    b = np.asarray(b).ravel()
    m1, m2 = {}, {}
    for x, y in zip(a.tolist(), b.tolist()):
        if m1.setdefault(x, y) != y or m2.setdefault(y, x) != x:
            return False
    return True
