"""Deep snapshots of argument objects, for 'no operation modifies its inputs' (C17) and state checks (C18)."""
import copy

import numpy as np


def freeze(o):
    """Canonical, hashable-ish nested structure capturing values bit for bit."""
    import xarray as xr

    if isinstance(o, np.ndarray):
        a = np.asarray(o)
        if a.dtype == object:
            return ("ndarray-object", a.shape, tuple(freeze(x) for x in a.ravel().tolist()))
        return ("ndarray", a.dtype.str, a.shape, np.ascontiguousarray(a).tobytes())
    if isinstance(o, (xr.DataArray, xr.Dataset, xr.Variable)):
        return snap(o)
    if isinstance(o, dict):
        return ("dict", type(o).__name__, tuple((repr(k), freeze(v)) for k, v in o.items()))
    if isinstance(o, (list, tuple)):
        return (type(o).__name__, tuple(freeze(x) for x in o))
    if isinstance(o, (np.generic,)):
        return ("npscalar", o.dtype.str, o.tobytes())
    if isinstance(o, float):
        return ("float", repr(o))
    if isinstance(o, (int, str, bool, bytes, type(None))):
        return (type(o).__name__, o)
    return ("obj", type(o).__name__, repr(o)[:200])


def _var(v):
    data = v._data if hasattr(v, "_data") else v.data
    info = {}
    try:
        import dask.array as dsa

        if isinstance(data, dsa.Array):
            info["dask_name"] = data.name
            info["dask_chunks"] = data.chunks
            vals = np.asarray(data.compute(scheduler="synchronous"))
        else:
            vals = np.asarray(v.values)
    except ImportError:
        vals = np.asarray(v.values)
    return dict(dims=tuple(v.dims), dtype=vals.dtype.str, shape=vals.shape, bytes=np.ascontiguousarray(vals).tobytes() if vals.dtype != object else repr(vals.tolist()),
                attrs=freeze(dict(v.attrs)), encoding=freeze(dict(v.encoding)), **info)


def snap(o):
    import xarray as xr

    if isinstance(o, xr.Dataset):
        return dict(kind="Dataset", order=list(o.variables), dims=list(o.sizes.items()), coords=list(o.coords), attrs=freeze(dict(o.attrs)), encoding=freeze(dict(o.encoding)),
                    vars={str(k): _var(v) for k, v in o.variables.items()}, indexes={str(k): freeze(np.asarray(ix.values)) if hasattr(ix, "values") else repr(ix) for k, ix in o.indexes.items()})
    if isinstance(o, xr.DataArray):
        return dict(kind="DataArray", name=o.name, var=_var(o.variable), coords={str(k): _var(v.variable) for k, v in o.coords.items()}, corder=list(o.coords),
                    indexes={str(k): freeze(np.asarray(ix.values)) for k, ix in o.indexes.items()})
    if isinstance(o, xr.Variable):
        return _var(o)
    return freeze(o)


def diff(a, b, path=""):
    """First difference between two snapshots (or None)."""
    if type(a) is not type(b):
        return "%s: type %s -> %s" % (path, type(a).__name__, type(b).__name__)
    if isinstance(a, dict):
        if list(a.keys()) != list(b.keys()):
            return "%s: keys %s -> %s" % (path, list(a.keys())[:8], list(b.keys())[:8])
        for k in a:
            d = diff(a[k], b[k], path + "/" + str(k))
            if d:
                return d
        return None
    if isinstance(a, (list, tuple)):
        if len(a) != len(b):
            return "%s: length %d -> %d" % (path, len(a), len(b))
        for i, (x, y) in enumerate(zip(a, b)):
            d = diff(x, y, path + "[%d]" % i)
            if d:
                return d
        return None
    if a != b:
        if isinstance(a, bytes):
            return "%s: %d bytes changed" % (path, sum(x != y for x, y in zip(a, b)) + abs(len(a) - len(b)))
        return "%s: %r -> %r" % (path, str(a)[:80], str(b)[:80])
    return None
