"""CLI: ./check <ID> [--tier quick|thorough] [--replay FILE] [--only f1,f2] [--scale X]"""
import argparse
import glob
import os
import sys
import time
import traceback

os.environ.setdefault("PYTHONHASHSEED", "0")
os.environ.setdefault("OMP_NUM_THREADS", "1")
os.environ.setdefault("OPENBLAS_NUM_THREADS", "1")
os.environ.setdefault("MKL_NUM_THREADS", "1")

from . import core, env  # noqa: E402


def main(argv=None):
    ap = argparse.ArgumentParser()
    ap.add_argument("prop")
    ap.add_argument("--tier", default=os.environ.get("VERIF_TIER", "quick"), choices=["quick", "thorough"])
    ap.add_argument("--replay")
    ap.add_argument("--only")
    ap.add_argument("--scale", type=float, default=1.0)
    ap.add_argument("--procs", type=int, default=int(os.environ.get("VERIF_PROCS", "16")))
    ap.add_argument("--no-evidence", action="store_true")
    a = ap.parse_args(argv)
    prop = a.prop.upper()
    modname = prop.lower()
    try:
        seed = int(os.environ.get("VERIF_SEED", "1") or "1")
    except ValueError:
        seed = 1
    t0 = time.time()
    try:
        env.setup()
        mod = __import__("vf.props." + modname, fromlist=["x"])
        if a.replay:
            v = core.replay_guarded(prop, modname, [os.path.abspath(a.replay)])[os.path.abspath(a.replay)]
            if v is None:
                print("replay passed: %s" % a.replay)
                return core.EXIT_OK
            print("replay failed: %s: %s" % (v["clause"], v["detail"]))
            print("VIOLATION property=%s replay=%s" % (prop, a.replay))
            return core.EXIT_VIOLATION

        violations = []
        # 1. known findings: replay the pinned input; report it as KNOWN-FINDING while it still fails
        findings, _fixed = core.load_findings(prop)
        pinned = {}
        for f in findings:
            if f["replay"]:
                pinned[os.path.abspath(os.path.join(env.VERIF, f["replay"]))] = f
        corpus = [os.path.abspath(p) for p in sorted(glob.glob(os.path.join(env.VERIF, "corpus", prop, "*.json")))]
        corpus = [p for p in corpus if p not in pinned]
        rep = core.replay_guarded(prop, modname, list(pinned) + corpus, procs=max(1, a.procs))
        for path, f in pinned.items():
            if rep[path] is not None:
                print("KNOWN-FINDING: property=%s %s" % (prop, f["desc"]))
        # 2. regression corpus (includes inputs of fixed findings): any failure is a violation
        ncorpus = len(corpus)
        for path in corpus:
            v = rep[path]
            if v is not None:
                print("corpus case failed: %s: %s: %s" % (os.path.relpath(path, env.VERIF), v["clause"], v["detail"][:400]))
                violations.append(os.path.relpath(path, env.VERIF))
        # 3. generated search
        only = set(a.only.split(",")) if a.only else None
        results = core.run_facets(prop, modname, a.tier, seed, only=only, scale=a.scale, procs=a.procs)
        merged = core.merge(results)
        errors = [(n, m["error"]) for n, m in merged.items() if m["error"]]
        for n, m in merged.items():
            if m["violation"]:
                v = m["violation"]
                print("facet %s: %s: %s" % (n, v["clause"], v["detail"][:600]))
                violations.append(os.path.relpath(v["replay"], env.VERIF))
        if errors:
            for n, e in errors:
                sys.stderr.write("HARNESS ERROR in facet %s:\n%s\n" % (n, e))
            if not violations:
                return core.EXIT_HARNESS
        wall = time.time() - t0
        if not a.no_evidence and not only:
            extra = dict(corpus_replayed=ncorpus, known_findings=[f["desc"] for f in findings])
            if hasattr(mod, "extra_evidence"):
                extra.update(mod.extra_evidence(merged, a.tier))
            core.write_evidence(prop, a.tier, seed, merged, mod.RULE, mod.ASSUMPTIONS, wall, len(violations), extra)
        tot = sum(m["evaluations"] for m in merged.values())
        nt = sum(len(m["hashes"]) + m["nt_extra"] for m in merged.values())
        print("%s %s seed=%d: %d evaluations, %d distinct non-trivial, %d facets, %.1fs" % (prop, a.tier, seed, tot, nt, len(merged), wall))
        if violations:
            for r in violations:
                print("VIOLATION property=%s replay=%s" % (prop, r))
            return core.EXIT_VIOLATION
        return core.EXIT_OK
    except env.HarnessError as e:
        sys.stderr.write("HARNESS ERROR: %s\n" % e)
        return core.EXIT_HARNESS
    except Exception:  # noqa: BLE001
        sys.stderr.write("HARNESS ERROR:\n" + traceback.format_exc())
        return core.EXIT_HARNESS


if __name__ == "__main__":
    rc = main()
    env.cleanup_workdir()
    sys.exit(rc)
