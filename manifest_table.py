# one check(...) call per claimed property; read by tools_manifest.py
check(
    "C04",
    "exhaustive enumeration of small grids + pseudo-random and Hypothesis-generated grids against an independent flood-fill oracle (regional maxima, connectivity, shift equivariance), native runs under ASan/UBSan",
    "Every {0,1} / {0,1,2} / {0,1,2,3} map on every grid shape up to 16 / 12 / 9 cells is checked exhaustively (with every circular shift and several level counts); larger shapes are sampled (millions of native cases in the thorough tier, Hypothesis cases through the Python extension). Exploration, not proof: beyond the enumerated bounds the property is only sampled.",
    "Trusts the independent oracle (implemented twice, C and Python, cross-checked on every Hypothesis case) and clang's sanitizers; the native driver links the tree's specpart.c standalone.",
    "DESIGN.md section 5 C04",
)
