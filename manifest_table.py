# one check(...) call per claimed property; read by tools_manifest.py
check(
    "C04",
    "exhaustive enumeration of small grids + pseudo-random and Hypothesis-generated grids against an independent flood-fill oracle (regional maxima, connectivity, shift equivariance), native runs under ASan/UBSan",
    "Every {0,1} / {0,1,2} / {0,1,2,3} map on every grid shape up to 16 / 12 / 9 cells is checked exhaustively (with every circular shift and several level counts); larger shapes are sampled (millions of native cases in the thorough tier, Hypothesis cases through the Python extension). Exploration, not proof: beyond the enumerated bounds the property is only sampled.",
    "Trusts the independent oracle (implemented twice, C and Python, cross-checked on every Hypothesis case) and clang's sanitizers; the native driver links the tree's specpart.c standalone.",
    "DESIGN.md section 5 C04",
)
check(
    "C01",
    "Hypothesis-generated grids/spectra/datasets compared stat by stat with an independent float64 bin-by-bin evaluation of the defining integrals; exhaustive lattice sweep of the dispersion relation against a Newton solve",
    "Each run evaluates ~25 statistics on hundreds (quick) / tens of thousands (thorough) of generated datasets covering every grid class named in the property (1..16 frequencies either side of the 0.333 Hz tail threshold, 1..24 directions in any stored order, 1D spectra, 0-3 leading dims, float32/64) and sweeps wavenuma/celerity/wavelen over a 200x200 (f,h) lattice. Exploration: sampled, not exhaustive, except for the lattice.",
    "Trusts the reference implementation in vf/ref/stats.py (plain loops / math.fsum, no wavespectra import) and the stated tolerances; dm on non-uniform frequency grids is a recorded known finding and is checked there against the weaker unweighted relation.",
    "DESIGN.md section 5 C01",
)
check(
    "C02",
    "Hypothesis-generated integer-exact profiles (ties, plateaus, monotone, top-bin peaks, boundary maxima, peaks 2^-30 apart in float64 data) lifted to 2D and embedded in datasets, compared with a plain-loop reference peak finder; exhaustive enumeration of all short 1D profiles over {0,1,2,3}",
    "All 1D profiles of length 3..7 over a 4-letter alphabet are checked exhaustively for tp/fp/alpha/gamma and the NaN clause; multi-dimensional, directional and float32 cases are sampled (hundreds quick / tens of thousands thorough), with every peak class counted in evidence.",
    "Trusts the reference peak finder / parabola / tail-fit window re-derivation in vf/props/c02.py and vf/ref/stats.py; ties between equal peaks accept any of the tied peaks; float32 output precision tolerances as stated in the evidence assumptions.",
    "DESIGN.md section 5 C02",
)
check(
    "C10",
    "Hypothesis-generated non-degenerate datasets under metamorphic relations (S vs k*S, S vs direction-relabelled S), stated bounds as validity predicates, and scale_by_hs against reference statistics with bounds placed between and exactly on actual values",
    "Hundreds (quick) / tens of thousands (thorough) of generated datasets per relation; k spans 12 decades, rotation angles any real incl. negative, >360 and bin multiples; discrete choices (peak bin, peak direction) are compared only where the reference says the choice is well conditioned. Exploration.",
    "Trusts the reference conditioning analysis (vf/props/c10._conditioning) and vf/ref/stats.py; alpha and gw are deliberately excluded from the invariance claims (see DESIGN.md C10).",
    "DESIGN.md section 5 C10",
)
check(
    "C03",
    "Hypothesis-generated spectra / winds / requested counts (drawn relative to the detected number of basins) checked with validity predicates from the statement plus a differential re-assembly of wind sea / swells from the watershed label map (itself validated against an independent flood-fill reference, also after the routine was used on another grid of the same bin count); accessor calls on 64-160 one-chunk spectra under 4-16 dask threads",
    "Thousands (quick) / >100k (thorough) array-level cases over all three methods and accessor-level cases on multi-dimensional datasets with per-position winds and smoothing; every clause (value-or-zero, disjointness, conservation when requested >= detected, count, order with tie groups, dropped-are-smallest) is asserted on each. Exploration.",
    "Trusts the independent flood-fill reference (vf/ref/watershed.py) that every label map is required to agree with before it is used to re-assemble the expected partitions, and the independent trapezoid Hs used for ordering; wave-age boundary bins within 1e-9 skip only the differential comparison; the threaded facet samples interleavings, it does not own the schedule.",
    "DESIGN.md section 5 C03",
)
check(
    "C05",
    "metamorphic: Hypothesis draws (dataset, storage transformation, operation) and compares O(T(x)) with O(x) after sorting by coordinate labels; transformations are materialised in memory (dim permutation incl. dir-before-freq, Fortran order, strided views, dtype width, direction roll incl. seam-first, reversal)",
    "Thousands (quick) / >100k (thorough) (x,T,O) triples across ~55 catalogue operations and the numpy-level np_ptm functions, with the distribution of transformations and operation families reported. Exploration.",
    "Trusts xarray's label-based sortby/transpose for the comparison; discrete choices are compared only when the reference conditioning analysis says they are well determined; reversal is not applied to watershed methods, as the statement allows.",
    "DESIGN.md section 5 C05",
)
check(
    "C06",
    "differential: batched call vs per-spectrum calls at every position, single-spectrum perturbation with bit-exact comparison elsewhere, and Dataset accessor vs efth accessor, over Hypothesis-generated heterogeneous datasets and the whole operation catalogue (8+ operations per dataset)",
    "Thousands (quick) / >100k (thorough) (dataset, operation, position) comparisons; datasets have 1-3 non-spectral dims in any order with deliberately different neighbouring spectra and per-position wind/depth. Exploration.",
    "Trusts xarray's isel for extraction; hmax excluded as the statement says; fit_jonswap/fit_gaussian are covered by the dask/independence facets only for unimodal spectra.",
    "DESIGN.md section 5 C06",
)
check(
    "C07",
    "differential: Hypothesis draws (dataset, chunking of every dimension incl. freq/dir, scheduler, operations) and compares the computed dask result with the in-memory result; mixed-shape partition graphs computed together under the threaded scheduler; after every computation the process-wide warnings filters must hold no \"error\" entry",
    "Hundreds (quick) / tens of thousands (thorough) of (chunking, scheduler, operation) combinations over the whole catalogue plus stats / scale_by_hs / fit_jonswap / ptm1_track, and batches of 2-5 partition graphs of different spectral shapes under 2/4/16 worker threads. The chunking and scheduler quantifiers are swept; thread interleavings are sampled (see level_note).",
    "The harness does not own dask's scheduler: interleavings are sampled at task granularity (the C entry point holds the GIL). A data race inside one C call would need a schedule-owning tool; releasing the GIL in the wrapper is nevertheless caught by the mixed-shape batches (crash / differing result).",
    "DESIGN.md section 5 C07",
)
check(
    "C19",
    "exhaustive enumeration of short histories over a small alphabet plus Hypothesis-generated histories (appearing / disappearing / drifting / slot-swapping wave systems, random thresholds) checked against history invariants with thresholds recomputed independently; multi-site and end-to-end ptm1_track facets",
    "All histories with 2 partitions x 2 steps (quick) and additionally 3x2 and 2x3 (thorough, ~10^7 histories) over 13 cell values are enumerated; thousands / tens of thousands of random histories up to 6 partitions x 12 steps; site independence by differential comparison with single-site runs. Exhaustive within the enumerated bounds, sampled beyond.",
    "Trusts the independent re-derivation of the sea/swell thresholds from the documented formulas; carries within 1e-12 of a threshold are not judged; the 'unambiguous carry' clause follows the documented matching rule.",
    "DESIGN.md section 5 C19",
)
check(
    "C08",
    "Hypothesis-generated (source grid, target grid, spectra, maintain_m0) and (grid, rotation angle) cases checked against coordinate / identity / non-negativity / zero-above-fmax / Hs-conservation predicates and an independent circular bilinear interpolation",
    "Thousands (quick) / ~10^5 (thorough) grid pairs incl. unsorted and descending stored directions, duplicated 0/360 bins, targets inside the seam gap and outside the source frequency range, zero spectra inside batches, float32/64. Exploration.",
    "Trusts np.interp-based reference (vf/props/c08.ref_regrid) and the reference Hs; uniform full-circle target direction grids (so that a bin width exists for Hs).",
    "DESIGN.md section 5 C08",
)
check(
    "C16",
    "Hypothesis-generated spectra, grids (full-circle in any stored order, partial uniform) and odd windows compared with an explicit-loop box filter (local bounds everywhere, window mean where the window fits), plus identity, even-window rejection and commutation with circular shifts",
    "Thousands (quick) / tens of thousands (thorough) of (dataset, window) cases incl. windows up to the grid size, unsorted stored directions, extra dims and float32; every clause of the statement is asserted per case. Exploration.",
    "Trusts the explicit-loop reference filter in vf/props/c16.py; direction spacing restricted to exactly representable values as the property itself states.",
    "DESIGN.md section 5 C16",
)
check(
    "C09",
    "Hypothesis-generated datasets with bin-by-bin membership oracles for PTM4 (incl. constructed exact-boundary bins), bbox (index-lattice rectangles converted to limits, omitted limits, overlapping pairs), split / stats limits (cutoffs on and off nodes, reversed limits) and PTM5 (single variance-preserving factor)",
    "Thousands (quick) / ~10^5 (thorough) cases across five facets; boundary-equality bins are constructed, not hoped for (every boundary case in evidence reports an exact hit). Exploration.",
    "Uses the library's celerity() only on the wave-age boundary (within 0.3 %), an independent Newton celerity elsewhere; rectangles that overlap without sharing a bin are not generated.",
    "DESIGN.md section 5 C09",
)
check(
    "C14",
    "Hypothesis-generated station layouts / queries (physical longitudes expressed in either convention on either side) against a reference on physical coordinates, metamorphic re-expression of dataset and query conventions, and an exhaustive lattice of small layouts around the 0 and 180 meridians",
    "All layouts of 1-3 stations on a 12-point longitude lattice x 6 queries x 4 convention pairs x 2 tolerances x 3 methods exhaustively; hundreds (quick) / tens of thousands (thorough) of random layouts with up to 6 stations, duplicated queries, tolerances 0..10, max_sites 1..6, optional precomputed coordinates. Exploration outside the lattice.",
    "Trusts the reference distance / weighting in vf/props/c14.py; boxes whose tolerance-widened extent leaves the query convention's own range are not generated (the statement leaves them undefined); distances within 1e-9 of a threshold are not judged.",
    "DESIGN.md section 5 C14",
)
check(
    "C15",
    "Hypothesis-generated parameter sets (scalars and DataArrays) for the four frequency shapes and both spreading functions; Hs measured by an independent reference and by the accessor, identities between shapes, normalisation / non-negativity of spreading, and measured dm / dspr against the request within an independently computed n-point aliasing bound",
    "Hundreds (quick) / tens of thousands (thorough) of parameter sets per facet: frequency grids of every kind either side of the 0.333 Hz threshold, 8..72 directions starting anywhere, mean directions next to 0/360, spreads 5..75 degrees. Exploration.",
    "Trusts vf/ref/stats.py for Hs and the independent cos^2s evaluation for the aliasing bound; under-resolved cases (bound > 0.05 deg) only checked for normalisation, as designed.",
    "DESIGN.md section 5 C15",
)
check(
    "C17",
    "Hypothesis-generated sequences of public operations on numpy-backed, dask-backed and view-backed arguments with a deep before/after snapshot of every argument object (data bytes, coords, index order, attrs, encoding, dask graph identity, parent buffer of views, keyword dictionaries and query lists)",
    "Hundreds (quick) / tens of thousands (thorough) of call sequences over ~55 accessor operations (array and Dataset accessors), three selection methods under both longitude conventions, construction helpers, five model-native readers, six writers and calls that raise. Exploration over programs of length 1-3.",
    "Trusts the snapshot to be complete for the argument kinds used (xarray objects, numpy arrays, lists, dicts); netCDF writers exercised through the scipy NETCDF3 backend only.",
    "DESIGN.md section 5 C17",
)
check(
    "C18",
    "model-based generation of histories (accessor calls, in-place edits, partition calls on other shapes, bad statistic names, attribute-table look-ups, reader calls, file write/read round trips, fits) interpreted against a plain-numpy model; every observation compared with a fresh object, and the first four / every raising one / those following a fit, reader or file step also with a pristine forked process that never executed an operation",
    "Hundreds (quick) / thousands (thorough) of histories of up to 12 / 30 steps on 1-3 live objects; values and attributes compared bit for bit; Dataset accessor vs efth accessor compared at every observation. Exploration over histories.",
    "Histories are explicit step lists (a JSON replay file is the history) rather than a RuleBasedStateMachine; the pristine process is forked from a server that imported the library but never ran an operation; operations needing live wind fields on bare DataArrays are compared in-process only.",
    "DESIGN.md section 5 C18",
)
check(
    "C20",
    "Python layer: Hypothesis-generated degenerate spectra on grids from 1x1 up x the operation catalogue, and the whole invalid-argument catalogue on every generated dataset; native layer: exhaustive enumeration + pseudo-random + Hypothesis-piped cases through a clang ASan/UBSan driver linked against the tree's specpart.c, and a coverage-guided libFuzzer campaign with the oracle inside the target",
    "Every {0,1}/{0,1,2} map on every shape up to 16/12 cells (thorough) under sanitizers with a per-call CPU-time cap; millions of pseudo-random native cases with interleaved shapes; libFuzzer 16 x 600k runs (thorough) / 2 x 50k (quick); thousands of degenerate Python-layer cases and 22 invalid-argument entries per dataset. Exhaustive inside the enumerated bounds, exploration beyond; a reached fuzzing budget is reported as such.",
    "Memory-safety verdicts come from the standalone link of the same C source (not the extension binary); leak detection off (known leak in ptnghb is not a C20 clause); hp01 excluded as documented experimental.",
    "DESIGN.md section 5 C20",
)
check(
    "C12",
    "Hypothesis-generated physical truths encoded in memory in each model's native convention by independent builders (WW3, SWAN netCDF, WWM, ERA5, NDBC), passed through read_dataset / from_<model>, and compared bin by bin at the label of the same physical direction, plus native-units variance vs converted-coordinates variance, wind components vs speed/coming-from direction and the NDBC Longuet-Higgins reconstruction",
    "Thousands (quick) / tens of thousands (thorough) of native datasets per model with any direction order and offset, lon/lat with or without a time dimension, optional variables present or absent, ERA5 missing values, NDBC with and without directional moments. Exploration.",
    "Native layouts are built in memory from the format descriptions (no netCDF4 backend is installed, so the file-opening halves of ncswan / wwm / ndbc readers cannot be exercised here); ERA5 frequencies / directions are passed through the documented arguments.",
    "DESIGN.md section 5 C12",
)
check(
    "C11",
    "round trip: Hypothesis-generated datasets written with each format writer and read back with the matching reader, compared by (lon, lat) position, time, frequency, direction label and bin against the format's own quantisation step; written-record completeness for chunked Octopus output",
    "Hundreds (quick) / thousands (thorough) of datasets per pair (file I/O bound): SWAN ASCII (stations and lat x lon grids of unequal sizes, gz, ntime chunking, as_site), JSON, wavespectra netCDF packed / unpacked, WW3 netCDF, Octopus, Funwave; zero, all-NaN and 12-decade spectra, unsorted directions. Exploration.",
    "netCDF pairs run through the scipy NETCDF3 backend only (netCDF4 / zarr not installed: NETCDF4, zlib and zarr round trips are not claimed); coordinates are generated on each format's print resolution so that only the documented energy quantisation is lost.",
    "DESIGN.md section 5 C11",
)
check(
    "C13",
    "independent reference encoders (written from the format descriptions and validated against the vendor samples) produce random well-formed files - shuffled records, several files, header variants - that the library readers must return exactly after the documented unit conversion; direction integrals of reconstructed 2D spectra against the file's E(f)",
    "Thousands (quick) / tens of thousands (thorough) of generated files over ten formats (TRIAXYS dir/nondir, NDBC realtime/history with 1 or 5 files, Spotter CSV/JSON, Datawell, Obscape, WW3 station, SWAN ASCII variants, XWaves), plus the eight vendor samples re-encoded. Exploration over file contents.",
    "Encoders are the trusted base (vf/enc/instruments.py); no public description of XWaves' MAT layout is available, so its encoder mirrors the fields the reader documents (date vectors stored as integers); NDBC history r1/r2 scaling is outside what the property states and is not asserted.",
    "DESIGN.md section 5 C13",
)
