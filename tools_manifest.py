#!/venv/bin/python
"""Regenerate MANIFEST.json from the table below (keeps it valid at all times)."""
import json
import os

HERE = os.path.dirname(os.path.abspath(__file__))

BASE = ("cd /repo && /venv/bin/python -m pytest -ra -q -p no:cacheprovider --timeout=900 "
        "--continue-on-collection-errors --junitxml=/tmp/wavespectra-baseline.junit.xml")

CHECKS = {}
NOT_APPLICABLE = {}


def check(pid, technique, text, note, design):
    CHECKS[pid] = dict(
        property_id=pid,
        quick_cmd="./check %s --tier quick" % pid,
        thorough_cmd="./check %s --tier thorough" % pid,
        evidence_file="evidence/%s.json" % pid,
        replay_cmd_template="./check %s --replay {path}" % pid,
        engine="vf",
        level_claimed=dict(category="exploration", text=text, design_ref=design),
        level_note=note,
        technique=technique,
    )


exec(open(os.path.join(HERE, "manifest_table.py")).read())

allp = [json.loads(l)["id"] for l in open(os.path.join(HERE, "properties.jsonl"))]
for pid in allp:
    if pid not in CHECKS and pid not in NOT_APPLICABLE:
        NOT_APPLICABLE[pid] = "check not built yet in this round (planned: see DESIGN.md section 5); not claimed until its check is registered"

doc = dict(
    version=1,
    setup_cmd="./setup.sh",
    hooks=dict(
        guard="WAVESPECTRA_VERIF",
        enable="no source hooks are needed: every observation point is a public return value; checks export WAVESPECTRA_VERIF=1 and import the working tree of $VERIF_REPO (default /repo) with its C extension rebuilt from source on every run",
        baseline_off_cmd=BASE,
        source_commits=[],
        add_only=True,
    ),
    engines=[dict(name="vf", path="vf/", serves_properties=sorted(CHECKS), kind_free_text="Hypothesis strategies + stateful machines, exhaustive enumeration of small finite spaces, and a clang ASan/UBSan driver with libFuzzer target for the C watershed; every oracle is independent of the library code")],
    checks=[CHECKS[k] for k in sorted(CHECKS)],
    notes="All checks: ./check <ID> --tier quick|thorough; exit 0 held / 1 VIOLATION / 2 harness error. VERIF_SEED selects the Hypothesis seed. Known findings live in KNOWN_FINDINGS.txt.",
    not_applicable=[dict(property_id=k, reason=v) for k, v in sorted(NOT_APPLICABLE.items())],
)
with open(os.path.join(HERE, "MANIFEST.json"), "w") as f:
    json.dump(doc, f, indent=1)
    f.write("\n")
print("MANIFEST.json: %d checks, %d not_applicable" % (len(CHECKS), len(NOT_APPLICABLE)))
